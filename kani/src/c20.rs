//! C20 — serde round trip and field structure, against a recording Serializer and a replaying Deserializer
//! (test doubles, trusted; they follow serde's data model: structs via serialize_struct / visit_map, newtype structs
//! via serialize_newtype_struct / visit_newtype_struct, identifiers via visit_str).
//! Structure loops are unwound to the type-determined length with unwinding assertions on: complete for each type.
use cgmath::*;
use serde::de::{self, DeserializeSeed, MapAccess, Visitor};
use serde::ser::{self, SerializeStruct};
use serde::{Deserialize, Serialize};
use std::fmt;

#[derive(Clone, Copy, PartialEq, Eq, Debug)]
pub enum Tok {
    Struct(&'static str, usize),
    Field(&'static str),
    Newtype(&'static str),
    F64(u64),
    End,
    Nil,
}

pub const CAP: usize = 64;

pub struct Rec {
    pub t: [Tok; CAP],
    pub n: usize,
}
impl Rec {
    pub fn new() -> Rec { Rec { t: [Tok::Nil; CAP], n: 0 } }
    fn push(&mut self, k: Tok) {
        assert!(self.n < CAP);
        self.t[self.n] = k;
        self.n += 1;
    }
}

#[derive(Debug)]
pub struct MErr;
impl fmt::Display for MErr {
    fn fmt(&self, _f: &mut fmt::Formatter) -> fmt::Result { Ok(()) }
}
impl std::error::Error for MErr {}
impl ser::Error for MErr {
    fn custom<T: fmt::Display>(_m: T) -> Self { MErr }
}
impl de::Error for MErr {
    fn custom<T: fmt::Display>(_m: T) -> Self { MErr }
}

// ------------------------------------------------------------------ recording serializer
pub struct RSer<'a>(pub &'a mut Rec);
pub struct RStruct<'a>(&'a mut Rec);

macro_rules! unsupported_ser {
    ($($f:ident($($t:ty),*);)*) => { $(fn $f(self $(, _: $t)*) -> Result<(), MErr> { Err(MErr) })* };
}
impl<'a> ser::Serializer for RSer<'a> {
    type Ok = ();
    type Error = MErr;
    type SerializeSeq = ser::Impossible<(), MErr>;
    type SerializeTuple = ser::Impossible<(), MErr>;
    type SerializeTupleStruct = ser::Impossible<(), MErr>;
    type SerializeTupleVariant = ser::Impossible<(), MErr>;
    type SerializeMap = ser::Impossible<(), MErr>;
    type SerializeStruct = RStruct<'a>;
    type SerializeStructVariant = ser::Impossible<(), MErr>;
    unsupported_ser! {
        serialize_bool(bool); serialize_i8(i8); serialize_i16(i16); serialize_i32(i32); serialize_i64(i64);
        serialize_u8(u8); serialize_u16(u16); serialize_u32(u32); serialize_u64(u64); serialize_f32(f32);
        serialize_char(char); serialize_str(&str); serialize_bytes(&[u8]); serialize_none(); serialize_unit();
        serialize_unit_struct(&'static str); serialize_unit_variant(&'static str, u32, &'static str);
    }
    fn serialize_f64(self, v: f64) -> Result<(), MErr> { self.0.push(Tok::F64(v.to_bits())); Ok(()) }
    fn serialize_some<T: ?Sized + Serialize>(self, _: &T) -> Result<(), MErr> { Err(MErr) }
    fn serialize_newtype_struct<T: ?Sized + Serialize>(self, name: &'static str, v: &T) -> Result<(), MErr> {
        self.0.push(Tok::Newtype(name));
        v.serialize(RSer(self.0))
    }
    fn serialize_newtype_variant<T: ?Sized + Serialize>(self, _: &'static str, _: u32, _: &'static str, _: &T) -> Result<(), MErr> { Err(MErr) }
    fn serialize_seq(self, _: Option<usize>) -> Result<Self::SerializeSeq, MErr> { Err(MErr) }
    fn serialize_tuple(self, _: usize) -> Result<Self::SerializeTuple, MErr> { Err(MErr) }
    fn serialize_tuple_struct(self, _: &'static str, _: usize) -> Result<Self::SerializeTupleStruct, MErr> { Err(MErr) }
    fn serialize_tuple_variant(self, _: &'static str, _: u32, _: &'static str, _: usize) -> Result<Self::SerializeTupleVariant, MErr> { Err(MErr) }
    fn serialize_map(self, _: Option<usize>) -> Result<Self::SerializeMap, MErr> { Err(MErr) }
    fn serialize_struct(self, name: &'static str, len: usize) -> Result<RStruct<'a>, MErr> {
        self.0.push(Tok::Struct(name, len));
        Ok(RStruct(self.0))
    }
    fn serialize_struct_variant(self, _: &'static str, _: u32, _: &'static str, _: usize) -> Result<Self::SerializeStructVariant, MErr> { Err(MErr) }
}
impl<'a> SerializeStruct for RStruct<'a> {
    type Ok = ();
    type Error = MErr;
    fn serialize_field<T: ?Sized + Serialize>(&mut self, key: &'static str, v: &T) -> Result<(), MErr> {
        self.0.push(Tok::Field(key));
        v.serialize(RSer(self.0))
    }
    fn end(self) -> Result<(), MErr> { self.0.push(Tok::End); Ok(()) }
}

// ------------------------------------------------------------------ replaying deserializer
pub struct Play<'a> {
    pub t: &'a [Tok; CAP],
    pub pos: usize,
}
impl<'a> Play<'a> {
    fn next(&mut self) -> Tok {
        let k = if self.pos < CAP { self.t[self.pos] } else { Tok::Nil };
        self.pos += 1;
        k
    }
    fn peek(&self) -> Tok { if self.pos < CAP { self.t[self.pos] } else { Tok::Nil } }
}
macro_rules! unsupported_de {
    ($($f:ident)*) => { $(fn $f<V: Visitor<'de>>(self, _v: V) -> Result<V::Value, MErr> { Err(MErr) })* };
}
impl<'de, 'a, 'b> de::Deserializer<'de> for &'b mut Play<'a> {
    type Error = MErr;
    unsupported_de! { deserialize_any deserialize_bool deserialize_i8 deserialize_i16 deserialize_i32 deserialize_i64 deserialize_u8
        deserialize_u16 deserialize_u32 deserialize_u64 deserialize_f32 deserialize_char deserialize_string deserialize_bytes
        deserialize_byte_buf deserialize_option deserialize_unit deserialize_seq deserialize_map deserialize_ignored_any }
    fn deserialize_f64<V: Visitor<'de>>(self, v: V) -> Result<V::Value, MErr> {
        match self.next() { Tok::F64(b) => v.visit_f64(f64::from_bits(b)), _ => Err(MErr) }
    }
    fn deserialize_str<V: Visitor<'de>>(self, v: V) -> Result<V::Value, MErr> {
        match self.next() { Tok::Field(name) => v.visit_str(name), _ => Err(MErr) }
    }
    fn deserialize_identifier<V: Visitor<'de>>(self, v: V) -> Result<V::Value, MErr> { self.deserialize_str(v) }
    fn deserialize_unit_struct<V: Visitor<'de>>(self, _: &'static str, _v: V) -> Result<V::Value, MErr> { Err(MErr) }
    fn deserialize_newtype_struct<V: Visitor<'de>>(self, name: &'static str, v: V) -> Result<V::Value, MErr> {
        match self.next() { Tok::Newtype(n) if n == name => v.visit_newtype_struct(self), _ => Err(MErr) }
    }
    fn deserialize_tuple<V: Visitor<'de>>(self, _: usize, _v: V) -> Result<V::Value, MErr> { Err(MErr) }
    fn deserialize_tuple_struct<V: Visitor<'de>>(self, _: &'static str, _: usize, _v: V) -> Result<V::Value, MErr> { Err(MErr) }
    fn deserialize_struct<V: Visitor<'de>>(self, name: &'static str, _f: &'static [&'static str], v: V) -> Result<V::Value, MErr> {
        match self.next() {
            Tok::Struct(n, _) if n == name => {
                let r = v.visit_map(PMap { d: &mut *self })?;
                match self.next() { Tok::End => Ok(r), _ => Err(MErr) }
            }
            _ => Err(MErr),
        }
    }
    fn deserialize_enum<V: Visitor<'de>>(self, _: &'static str, _: &'static [&'static str], _v: V) -> Result<V::Value, MErr> { Err(MErr) }
}
pub struct PMap<'a, 'b> { d: &'b mut Play<'a> }
impl<'de, 'a, 'b> MapAccess<'de> for PMap<'a, 'b> {
    type Error = MErr;
    fn next_key_seed<K: DeserializeSeed<'de>>(&mut self, seed: K) -> Result<Option<K::Value>, MErr> {
        match self.d.peek() {
            Tok::Field(_) => seed.deserialize(&mut *self.d).map(Some),
            _ => Ok(None),
        }
    }
    fn next_value_seed<V: DeserializeSeed<'de>>(&mut self, seed: V) -> Result<V::Value, MErr> { seed.deserialize(&mut *self.d) }
}

fn ser<T: Serialize>(v: &T) -> Rec {
    let mut r = Rec::new();
    let ok = v.serialize(RSer(&mut r)).is_ok();
    assert!(ok);
    r
}
fn de<'x, T: Deserialize<'x>>(r: &Rec) -> Option<T> {
    let mut p = Play { t: &r.t, pos: 0 };
    let v = T::deserialize(&mut p).ok();
    if v.is_some() { assert!(p.pos == r.n); }
    v
}
fn bits(x: f64) -> u64 { x.to_bits() }
fn f(x: f64) -> Tok { Tok::F64(x.to_bits()) }

macro_rules! expect {
    ($r:expr, [$($t:expr),* $(,)?]) => {{ let e = [$($t),*]; assert!($r.n == e.len()); let mut i = 0; while i < e.len() { assert!($r.t[i] == e[i]); i += 1; } }};
}

#[kani::proof]
#[kani::unwind(14)]
fn vectors_points() {
    let a: [f64; 4] = kani::any();
    let v = Vector4::new(a[0], a[1], a[2], a[3]);
    let r = ser(&v);
    expect!(r, [Tok::Struct("Vector4", 4), Tok::Field("x"), f(a[0]), Tok::Field("y"), f(a[1]), Tok::Field("z"), f(a[2]), Tok::Field("w"), f(a[3]), Tok::End]);
    let w: Vector4<f64> = de(&r).unwrap();
    assert!(bits(w.x) == bits(a[0]) && bits(w.y) == bits(a[1]) && bits(w.z) == bits(a[2]) && bits(w.w) == bits(a[3]));
    let v = Vector3::new(a[0], a[1], a[2]);
    let r = ser(&v);
    expect!(r, [Tok::Struct("Vector3", 3), Tok::Field("x"), f(a[0]), Tok::Field("y"), f(a[1]), Tok::Field("z"), f(a[2]), Tok::End]);
    let w: Vector3<f64> = de(&r).unwrap();
    assert!(bits(w.x) == bits(a[0]) && bits(w.y) == bits(a[1]) && bits(w.z) == bits(a[2]));
    let p = Point2::new(a[0], a[1]);
    let r = ser(&p);
    expect!(r, [Tok::Struct("Point2", 2), Tok::Field("x"), f(a[0]), Tok::Field("y"), f(a[1]), Tok::End]);
    let w: Point2<f64> = de(&r).unwrap();
    assert!(bits(w.x) == bits(a[0]) && bits(w.y) == bits(a[1]));
    let r = ser(&Vector1::new(a[0]));
    expect!(r, [Tok::Struct("Vector1", 1), Tok::Field("x"), f(a[0]), Tok::End]);
    let r = ser(&Vector2::new(a[0], a[1]));
    let w: Vector2<f64> = de(&r).unwrap();
    assert!(bits(w.x) == bits(a[0]) && bits(w.y) == bits(a[1]));
    let r = ser(&Point3::new(a[0], a[1], a[2]));
    let w: Point3<f64> = de(&r).unwrap();
    assert!(bits(w.x) == bits(a[0]) && bits(w.y) == bits(a[1]) && bits(w.z) == bits(a[2]));
    let r = ser(&Point1::new(a[0]));
    let w: Point1<f64> = de(&r).unwrap();
    assert!(bits(w.x) == bits(a[0]));
}

#[kani::proof]
#[kani::unwind(14)]
fn angles_euler_quaternion() {
    let a: [f64; 4] = kani::any();
    let r = ser(&Rad(a[0]));
    expect!(r, [Tok::Newtype("Rad"), f(a[0])]);
    let w: Rad<f64> = de(&r).unwrap();
    assert!(bits(w.0) == bits(a[0]));
    let r = ser(&Deg(a[1]));
    expect!(r, [Tok::Newtype("Deg"), f(a[1])]);
    let w: Deg<f64> = de(&r).unwrap();
    assert!(bits(w.0) == bits(a[1]));
    let e = Euler { x: Rad(a[0]), y: Rad(a[1]), z: Rad(a[2]) };
    let r = ser(&e);
    expect!(r, [Tok::Struct("Euler", 3), Tok::Field("x"), Tok::Newtype("Rad"), f(a[0]), Tok::Field("y"), Tok::Newtype("Rad"), f(a[1]),
                Tok::Field("z"), Tok::Newtype("Rad"), f(a[2]), Tok::End]);
    let w: Euler<Rad<f64>> = de(&r).unwrap();
    assert!(bits(w.x.0) == bits(a[0]) && bits(w.y.0) == bits(a[1]) && bits(w.z.0) == bits(a[2]));
    let q = Quaternion::new(a[3], a[0], a[1], a[2]);
    let r = ser(&q);
    expect!(r, [Tok::Struct("Quaternion", 2), Tok::Field("v"), Tok::Struct("Vector3", 3), Tok::Field("x"), f(a[0]), Tok::Field("y"), f(a[1]),
                Tok::Field("z"), f(a[2]), Tok::End, Tok::Field("s"), f(a[3]), Tok::End]);
    let w: Quaternion<f64> = de(&r).unwrap();
    assert!(bits(w.v.x) == bits(a[0]) && bits(w.v.y) == bits(a[1]) && bits(w.v.z) == bits(a[2]) && bits(w.s) == bits(a[3]));
}

#[kani::proof]
#[kani::unwind(20)]
fn matrices_bases() {
    let a: [f64; 4] = kani::any();
    let m = Matrix2::new(a[0], a[1], a[2], a[3]);
    let r = ser(&m);
    expect!(r, [Tok::Struct("Matrix2", 2), Tok::Field("x"), Tok::Struct("Vector2", 2), Tok::Field("x"), f(a[0]), Tok::Field("y"), f(a[1]), Tok::End,
                Tok::Field("y"), Tok::Struct("Vector2", 2), Tok::Field("x"), f(a[2]), Tok::Field("y"), f(a[3]), Tok::End, Tok::End]);
    let w: Matrix2<f64> = de(&r).unwrap();
    assert!(bits(w.x.x) == bits(a[0]) && bits(w.x.y) == bits(a[1]) && bits(w.y.x) == bits(a[2]) && bits(w.y.y) == bits(a[3]));
    let b: Basis2<f64> = Rotation2::from_angle(Rad(0.0));
    let r = ser(&b);
    assert!(r.t[0] == Tok::Struct("Basis2", 1) && r.t[1] == Tok::Field("mat") && r.t[2] == Tok::Struct("Matrix2", 2));
    let w: Basis2<f64> = de(&r).unwrap();
    let (wm, bm): (&Matrix2<f64>, &Matrix2<f64>) = (w.as_ref(), b.as_ref());
    assert!(bits(wm.x.x) == bits(bm.x.x) && bits(wm.y.x) == bits(bm.y.x) && bits(wm.x.y) == bits(bm.x.y) && bits(wm.y.y) == bits(bm.y.y));
}

#[kani::proof]
#[kani::unwind(40)]
fn matrix3_roundtrip() {
    let a: [f64; 9] = kani::any();
    let m = Matrix3::new(a[0], a[1], a[2], a[3], a[4], a[5], a[6], a[7], a[8]);
    let r = ser(&m);
    assert!(r.t[0] == Tok::Struct("Matrix3", 3) && r.t[1] == Tok::Field("x") && r.t[2] == Tok::Struct("Vector3", 3) && r.t[10] == Tok::Field("y") && r.t[19] == Tok::Field("z"));
    let w: Matrix3<f64> = de(&r).unwrap();
    assert!(bits(w.x.x) == bits(a[0]) && bits(w.x.y) == bits(a[1]) && bits(w.x.z) == bits(a[2]) && bits(w.y.x) == bits(a[3]) && bits(w.y.y) == bits(a[4])
        && bits(w.y.z) == bits(a[5]) && bits(w.z.x) == bits(a[6]) && bits(w.z.y) == bits(a[7]) && bits(w.z.z) == bits(a[8]));
}

#[kani::proof]
#[kani::unwind(16)]
fn projections() {
    let a: [f64; 6] = kani::any();
    let o = Ortho { left: a[0], right: a[1], bottom: a[2], top: a[3], near: a[4], far: a[5] };
    let r = ser(&o);
    expect!(r, [Tok::Struct("Ortho", 6), Tok::Field("left"), f(a[0]), Tok::Field("right"), f(a[1]), Tok::Field("bottom"), f(a[2]),
                Tok::Field("top"), f(a[3]), Tok::Field("near"), f(a[4]), Tok::Field("far"), f(a[5]), Tok::End]);
    let w: Ortho<f64> = de(&r).unwrap();
    assert!(bits(w.left) == bits(a[0]) && bits(w.right) == bits(a[1]) && bits(w.bottom) == bits(a[2]) && bits(w.top) == bits(a[3]) && bits(w.near) == bits(a[4]) && bits(w.far) == bits(a[5]));
    let p = PerspectiveFov { fovy: Rad(a[0]), aspect: a[1], near: a[2], far: a[3] };
    let r = ser(&p);
    expect!(r, [Tok::Struct("PerspectiveFov", 4), Tok::Field("fovy"), Tok::Newtype("Rad"), f(a[0]), Tok::Field("aspect"), f(a[1]),
                Tok::Field("near"), f(a[2]), Tok::Field("far"), f(a[3]), Tok::End]);
    let w: PerspectiveFov<f64> = de(&r).unwrap();
    assert!(bits(w.fovy.0) == bits(a[0]) && bits(w.aspect) == bits(a[1]) && bits(w.near) == bits(a[2]) && bits(w.far) == bits(a[3]));
}

fn dec_tokens(order: [u8; 3], scale: f64, ang: f64, d: [f64; 2], skip: u8, unknown: bool) -> Rec {
    let mut r = Rec::new();
    r.push(Tok::Struct("Decomposed", 3));
    let mut i = 0;
    while i < 3 {
        let k = order[i];
        if k != skip {
            match k {
                0 => { r.push(Tok::Field("scale")); r.push(f(scale)); }
                1 => {
                    r.push(Tok::Field("rot")); r.push(Tok::Struct("Basis2", 1)); r.push(Tok::Field("mat")); r.push(Tok::Struct("Matrix2", 2));
                    r.push(Tok::Field("x")); r.push(Tok::Struct("Vector2", 2)); r.push(Tok::Field("x")); r.push(f(ang)); r.push(Tok::Field("y")); r.push(f(ang)); r.push(Tok::End);
                    r.push(Tok::Field("y")); r.push(Tok::Struct("Vector2", 2)); r.push(Tok::Field("x")); r.push(f(ang)); r.push(Tok::Field("y")); r.push(f(ang)); r.push(Tok::End);
                    r.push(Tok::End); r.push(Tok::End);
                }
                _ => { r.push(Tok::Field("disp")); r.push(Tok::Struct("Vector2", 2)); r.push(Tok::Field("x")); r.push(f(d[0])); r.push(Tok::Field("y")); r.push(f(d[1])); r.push(Tok::End); }
            }
        }
        i += 1;
    }
    if unknown { r.push(Tok::Field("shear")); r.push(f(scale)); }
    r.push(Tok::End);
    r
}

type D2 = Decomposed<Vector2<f64>, Basis2<f64>>;

#[kani::proof]
#[kani::unwind(36)]
fn decomposed_serialize_names_fields() {
    let s: f64 = kani::any();
    let d: [f64; 2] = kani::any();
    let rot: Basis2<f64> = Rotation2::from_angle(Rad(0.0));
    let t = D2 { scale: s, rot, disp: Vector2::new(d[0], d[1]) };
    let r = ser(&t);
    assert!(r.t[0] == Tok::Struct("Decomposed", 3) && r.t[1] == Tok::Field("scale") && r.t[2] == f(s) && r.t[3] == Tok::Field("rot") && r.t[4] == Tok::Struct("Basis2", 1));
    assert!(r.t[23] == Tok::Field("disp") && r.t[24] == Tok::Struct("Vector2", 2) && r.t[26] == f(d[0]) && r.t[28] == f(d[1]) && r.t[29] == Tok::End && r.t[30] == Tok::End && r.n == 31);
    let w: D2 = de(&r).unwrap();
    assert!(bits(w.scale) == bits(s) && bits(w.disp.x) == bits(d[0]) && bits(w.disp.y) == bits(d[1]));
}

#[kani::proof]
#[kani::unwind(36)]
fn decomposed_unit_and_zero_scale_roundtrip() {
    // concrete scale factors 1 and 0 (a serializer that drops "default-looking" fields must not pass), other payloads symbolic
    let d: [f64; 2] = kani::any();
    let rot: Basis2<f64> = Rotation2::from_angle(Rad(0.0));
    let t = D2 { scale: 1.0, rot, disp: Vector2::new(d[0], d[1]) };
    let r = ser(&t);
    assert!(r.n == 31 && r.t[1] == Tok::Field("scale") && r.t[2] == f(1.0) && r.t[3] == Tok::Field("rot") && r.t[23] == Tok::Field("disp"));
    let w: D2 = de(&r).unwrap();
    assert!(bits(w.scale) == bits(1.0) && bits(w.disp.x) == bits(d[0]) && bits(w.disp.y) == bits(d[1]));
    let t = D2 { scale: 0.0, rot, disp: Vector2::new(d[0], d[1]) };
    let r = ser(&t);
    assert!(r.n == 31 && r.t[1] == Tok::Field("scale") && r.t[2] == f(0.0));
    let w: D2 = de(&r).unwrap();
    assert!(bits(w.scale) == bits(0.0));
}

macro_rules! dec_order {
    ($name:ident, $o:expr) => {
        #[kani::proof]
        #[kani::unwind(36)]
        fn $name() {
            let s: f64 = kani::any();
            let ang: f64 = kani::any();
            let d: [f64; 2] = kani::any();
            let r = dec_tokens($o, s, ang, d, 9, false);
            let w: Option<D2> = de(&r);
            let w = w.unwrap();
            let m: &Matrix2<f64> = w.rot.as_ref();
            assert!(bits(w.scale) == bits(s) && bits(w.disp.x) == bits(d[0]) && bits(w.disp.y) == bits(d[1]) && bits(m.x.x) == bits(ang) && bits(m.y.y) == bits(ang));
        }
    };
}
dec_order!(decomposed_order_scale_rot_disp, [0, 1, 2]);
dec_order!(decomposed_order_scale_disp_rot, [0, 2, 1]);
dec_order!(decomposed_order_rot_scale_disp, [1, 0, 2]);
dec_order!(decomposed_order_rot_disp_scale, [1, 2, 0]);
dec_order!(decomposed_order_disp_scale_rot, [2, 0, 1]);
dec_order!(decomposed_order_disp_rot_scale, [2, 1, 0]);

macro_rules! dec_reject {
    ($name:ident, $skip:expr, $unknown:expr) => {
        #[kani::proof]
        #[kani::unwind(36)]
        fn $name() {
            let s: f64 = kani::any();
            let ang: f64 = kani::any();
            let d: [f64; 2] = kani::any();
            let r = dec_tokens([0, 1, 2], s, ang, d, $skip, $unknown);
            let w: Option<D2> = de(&r);
            assert!(w.is_none());
        }
    };
}
dec_reject!(decomposed_missing_scale_rejected, 0, false);
dec_reject!(decomposed_missing_rot_rejected, 1, false);
dec_reject!(decomposed_missing_disp_rejected, 2, false);
dec_reject!(decomposed_unknown_field_rejected, 9, true);

#[kani::proof]
#[kani::unwind(60)]
fn matrix4_basis3_roundtrip() {
    let a: [f64; 16] = kani::any();
    let m = Matrix4::new(a[0], a[1], a[2], a[3], a[4], a[5], a[6], a[7], a[8], a[9], a[10], a[11], a[12], a[13], a[14], a[15]);
    let r = ser(&m);
    assert!(r.t[0] == Tok::Struct("Matrix4", 4) && r.t[1] == Tok::Field("x") && r.t[2] == Tok::Struct("Vector4", 4) && r.t[12] == Tok::Field("y")
        && r.t[23] == Tok::Field("z") && r.t[34] == Tok::Field("w") && r.t[3] == Tok::Field("x") && r.t[9] == Tok::Field("w") && r.t[10] == f(a[3]));
    let w: Matrix4<f64> = de(&r).unwrap();
    let k: usize = kani::any();
    kani::assume(k < 16);
    assert!(bits(w[k / 4][k % 4]) == bits(a[k]));
}

#[kani::proof]
#[kani::unwind(20)]
fn perspective_planar() {
    let a: [f64; 6] = kani::any();
    let p = Perspective { left: a[0], right: a[1], bottom: a[2], top: a[3], near: a[4], far: a[5] };
    let r = ser(&p);
    expect!(r, [Tok::Struct("Perspective", 6), Tok::Field("left"), f(a[0]), Tok::Field("right"), f(a[1]), Tok::Field("bottom"), f(a[2]),
                Tok::Field("top"), f(a[3]), Tok::Field("near"), f(a[4]), Tok::Field("far"), f(a[5]), Tok::End]);
    let w: Perspective<f64> = de(&r).unwrap();
    assert!(bits(w.left) == bits(a[0]) && bits(w.right) == bits(a[1]) && bits(w.bottom) == bits(a[2]) && bits(w.top) == bits(a[3]) && bits(w.near) == bits(a[4]) && bits(w.far) == bits(a[5]));
    let q = PlanarFov { fovy: Rad(a[0]), aspect: a[1], height: a[2], near: a[3], far: a[4] };
    let r = ser(&q);
    expect!(r, [Tok::Struct("PlanarFov", 5), Tok::Field("fovy"), Tok::Newtype("Rad"), f(a[0]), Tok::Field("aspect"), f(a[1]), Tok::Field("height"), f(a[2]),
                Tok::Field("near"), f(a[3]), Tok::Field("far"), f(a[4]), Tok::End]);
    let w: PlanarFov<f64> = de(&r).unwrap();
    assert!(bits(w.fovy.0) == bits(a[0]) && bits(w.aspect) == bits(a[1]) && bits(w.height) == bits(a[2]) && bits(w.near) == bits(a[3]) && bits(w.far) == bits(a[4]));
}

#[kani::proof]
#[kani::unwind(40)]
fn decomposed3_quaternion_roundtrip() {
    let s: f64 = kani::any();
    let q: [f64; 4] = kani::any();
    let d: [f64; 3] = kani::any();
    let t: Decomposed<Vector3<f64>, Quaternion<f64>> = Decomposed { scale: s, rot: Quaternion::new(q[3], q[0], q[1], q[2]), disp: Vector3::new(d[0], d[1], d[2]) };
    let r = ser(&t);
    assert!(r.t[0] == Tok::Struct("Decomposed", 3) && r.t[1] == Tok::Field("scale") && r.t[2] == f(s) && r.t[3] == Tok::Field("rot") && r.t[4] == Tok::Struct("Quaternion", 2)
        && r.t[5] == Tok::Field("v") && r.t[14] == Tok::Field("s") && r.t[15] == f(q[3]) && r.t[17] == Tok::Field("disp") && r.t[18] == Tok::Struct("Vector3", 3));
    let w: Decomposed<Vector3<f64>, Quaternion<f64>> = de(&r).unwrap();
    assert!(bits(w.scale) == bits(s) && bits(w.rot.s) == bits(q[3]) && bits(w.rot.v.x) == bits(q[0]) && bits(w.rot.v.y) == bits(q[1]) && bits(w.rot.v.z) == bits(q[2])
        && bits(w.disp.x) == bits(d[0]) && bits(w.disp.y) == bits(d[1]) && bits(w.disp.z) == bits(d[2]));
}
