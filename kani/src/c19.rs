//! C19 — numeric cast of compound values is all-or-nothing and component-faithful (against the real num_traits).
//! Loop-free, fully symbolic components: complete proofs for the listed (source, target) scalar pairs.
use cgmath::*;
use num_traits::NumCast;
use crate::c16::Same;

fn agree<T: Same>(got: Option<T>, want: T) -> bool {
    match got { Some(g) => g.same(want), None => false }
}

macro_rules! cast_pair {
    ($m:ident, $S:ty, $T:ty) => {
        mod $m {
            use super::*;
            fn sc(x: $S) -> Option<$T> { NumCast::from(x) }
            #[kani::proof]
            fn vectors() {
                let a: [$S; 4] = kani::any();
                let c = [sc(a[0]), sc(a[1]), sc(a[2]), sc(a[3])];
                match Vector1::new(a[0]).cast::<$T>() {
                    None => assert!(c[0].is_none()),
                    Some(w) => assert!(agree(c[0], w.x)),
                }
                match Vector2::new(a[0], a[1]).cast::<$T>() {
                    None => assert!(c[0].is_none() || c[1].is_none()),
                    Some(w) => assert!(agree(c[0], w.x) && agree(c[1], w.y)),
                }
                match Vector3::new(a[0], a[1], a[2]).cast::<$T>() {
                    None => assert!(c[0].is_none() || c[1].is_none() || c[2].is_none()),
                    Some(w) => assert!(agree(c[0], w.x) && agree(c[1], w.y) && agree(c[2], w.z)),
                }
                match Vector4::new(a[0], a[1], a[2], a[3]).cast::<$T>() {
                    None => assert!(c[0].is_none() || c[1].is_none() || c[2].is_none() || c[3].is_none()),
                    Some(w) => assert!(agree(c[0], w.x) && agree(c[1], w.y) && agree(c[2], w.z) && agree(c[3], w.w)),
                }
            }
            #[kani::proof]
            fn points() {
                let a: [$S; 3] = kani::any();
                let c = [sc(a[0]), sc(a[1]), sc(a[2])];
                match Point1::new(a[0]).cast::<$T>() {
                    None => assert!(c[0].is_none()),
                    Some(w) => assert!(agree(c[0], w.x)),
                }
                match Point2::new(a[0], a[1]).cast::<$T>() {
                    None => assert!(c[0].is_none() || c[1].is_none()),
                    Some(w) => assert!(agree(c[0], w.x) && agree(c[1], w.y)),
                }
                match Point3::new(a[0], a[1], a[2]).cast::<$T>() {
                    None => assert!(c[0].is_none() || c[1].is_none() || c[2].is_none()),
                    Some(w) => assert!(agree(c[0], w.x) && agree(c[1], w.y) && agree(c[2], w.z)),
                }
            }
            #[kani::proof]
            fn matrix2_matrix3() {
                let a: [$S; 9] = kani::any();
                let m2 = Matrix2::new(a[0], a[1], a[2], a[3]);
                match m2.cast::<$T>() {
                    None => assert!(sc(a[0]).is_none() || sc(a[1]).is_none() || sc(a[2]).is_none() || sc(a[3]).is_none()),
                    Some(w) => assert!(agree(sc(a[0]), w.x.x) && agree(sc(a[1]), w.x.y) && agree(sc(a[2]), w.y.x) && agree(sc(a[3]), w.y.y)),
                }
                let m3 = Matrix3::new(a[0], a[1], a[2], a[3], a[4], a[5], a[6], a[7], a[8]);
                match m3.cast::<$T>() {
                    None => assert!(sc(a[0]).is_none() || sc(a[1]).is_none() || sc(a[2]).is_none() || sc(a[3]).is_none() || sc(a[4]).is_none()
                        || sc(a[5]).is_none() || sc(a[6]).is_none() || sc(a[7]).is_none() || sc(a[8]).is_none()),
                    Some(w) => assert!(agree(sc(a[0]), w.x.x) && agree(sc(a[1]), w.x.y) && agree(sc(a[2]), w.x.z)
                        && agree(sc(a[3]), w.y.x) && agree(sc(a[4]), w.y.y) && agree(sc(a[5]), w.y.z)
                        && agree(sc(a[6]), w.z.x) && agree(sc(a[7]), w.z.y) && agree(sc(a[8]), w.z.z)),
                }
            }
            #[kani::proof]
            fn matrix4() {
                let a: [$S; 16] = kani::any();
                let m = Matrix4::new(a[0], a[1], a[2], a[3], a[4], a[5], a[6], a[7], a[8], a[9], a[10], a[11], a[12], a[13], a[14], a[15]);
                let k: usize = kani::any();
                kani::assume(k < 16);
                match m.cast::<$T>() {
                    // None only if some component fails: checked through its contrapositive on an arbitrary component k
                    None => {
                        let all_ok = sc(a[0]).is_some() && sc(a[1]).is_some() && sc(a[2]).is_some() && sc(a[3]).is_some()
                            && sc(a[4]).is_some() && sc(a[5]).is_some() && sc(a[6]).is_some() && sc(a[7]).is_some()
                            && sc(a[8]).is_some() && sc(a[9]).is_some() && sc(a[10]).is_some() && sc(a[11]).is_some()
                            && sc(a[12]).is_some() && sc(a[13]).is_some() && sc(a[14]).is_some() && sc(a[15]).is_some();
                        assert!(!all_ok);
                    }
                    Some(w) => assert!(agree(sc(a[k]), w[k / 4][k % 4])),
                }
            }
        }
    };
}
macro_rules! cast_quat {
    ($m:ident, $S:ty, $T:ty) => {
        mod $m {
            use super::*;
            fn sc(x: $S) -> Option<$T> { NumCast::from(x) }
            #[kani::proof]
            fn quaternion() {
                let a: [$S; 4] = kani::any();
                let q = Quaternion::new(a[3], a[0], a[1], a[2]);
                match q.cast::<$T>() {
                    None => assert!(sc(a[0]).is_none() || sc(a[1]).is_none() || sc(a[2]).is_none() || sc(a[3]).is_none()),
                    Some(w) => assert!(agree(sc(a[0]), w.v.x) && agree(sc(a[1]), w.v.y) && agree(sc(a[2]), w.v.z) && agree(sc(a[3]), w.s)),
                }
            }
        }
    };
}
cast_pair!(f64_i8, f64, i8);
cast_pair!(f64_f32, f64, f32);
cast_pair!(i64_u8, i64, u8);
cast_pair!(u64_f32, u64, f32);
cast_pair!(f32_u32, f32, u32);
cast_pair!(i8_u32, i8, u32);
cast_pair!(f64_f64, f64, f64);
cast_pair!(i64_i64, i64, i64);
cast_pair!(u64_u64, u64, u64);
cast_quat!(q_f64_f64, f64, f64);
cast_quat!(q_f64_f32, f64, f32);
cast_quat!(q_f32_f64, f32, f64);
