//! C17 (iter::Product, iter::Sum for BaseFloat-bounded types) — BOUNDED stand-in: at most 3 elements, element type the
//! 8-bit wrapping ring W8 (w8.rs), against the explicit left fold from one() / zero().  The code under test is the real
//! generic `iter.fold(..)` monomorphised at W8; transfer to f32/f64 is by parametricity (A2).  Not counted as proved.
use cgmath::*;
use crate::w8::W8;

fn m2(a: [W8; 4]) -> Matrix2<W8> { Matrix2::new(a[0], a[1], a[2], a[3]) }
fn q(a: [W8; 4]) -> Quaternion<W8> { Quaternion::new(a[0], a[1], a[2], a[3]) }
fn eqm(a: Matrix2<W8>, b: Matrix2<W8>) -> bool { a.x.x == b.x.x && a.x.y == b.x.y && a.y.x == b.y.x && a.y.y == b.y.y }
fn eqq(a: Quaternion<W8>, b: Quaternion<W8>) -> bool { a.s == b.s && a.v.x == b.v.x && a.v.y == b.v.y && a.v.z == b.v.z }

#[kani::proof]
#[kani::unwind(5)]
fn matrix2_product_and_sum() {
    let raw: [[W8; 4]; 3] = kani::any();
    let n: usize = kani::any();
    kani::assume(n <= 3);
    let xs = [m2(raw[0]), m2(raw[1]), m2(raw[2])];
    let mut wantp = Matrix2::<W8>::one();
    let mut wants = Matrix2::<W8>::zero();
    let mut i = 0;
    while i < n { wantp = wantp * xs[i]; wants = wants + xs[i]; i += 1; }
    let p: Matrix2<W8> = xs[..n].iter().product();
    assert!(eqm(p, wantp));
    let p: Matrix2<W8> = xs[..n].iter().cloned().product();
    assert!(eqm(p, wantp));
    let s: Matrix2<W8> = xs[..n].iter().sum();
    assert!(eqm(s, wants));
    let s: Matrix2<W8> = xs[..n].iter().cloned().sum();
    assert!(eqm(s, wants));
}

#[kani::proof]
#[kani::unwind(5)]
fn quaternion_product_and_sum() {
    let raw: [[W8; 4]; 3] = kani::any();
    let n: usize = kani::any();
    kani::assume(n <= 3);
    let xs = [q(raw[0]), q(raw[1]), q(raw[2])];
    let mut wantp = Quaternion::<W8>::one();
    let mut wants = Quaternion::<W8>::zero();
    let mut i = 0;
    while i < n { wantp = wantp * xs[i]; wants = wants + xs[i]; i += 1; }
    let p: Quaternion<W8> = xs[..n].iter().product();
    assert!(eqq(p, wantp));
    let p: Quaternion<W8> = xs[..n].iter().cloned().product();
    assert!(eqq(p, wantp));
    let s: Quaternion<W8> = xs[..n].iter().sum();
    assert!(eqq(s, wants));
    let s: Quaternion<W8> = xs[..n].iter().cloned().sum();
    assert!(eqq(s, wants));
}

#[kani::proof]
#[kani::unwind(5)]
fn basis_products() {
    let raw: [[W8; 4]; 3] = kani::any();
    let n: usize = kani::any();
    kani::assume(n <= 3);
    // Basis2 / Basis3 values can only be built through conversions: wrap quaternion / matrix products
    let b3 = [Basis3::from_quaternion(&q(raw[0])), Basis3::from_quaternion(&q(raw[1])), Basis3::from_quaternion(&q(raw[2]))];
    let mut want = Basis3::<W8>::one();
    let mut i = 0;
    while i < n { want = want * b3[i]; i += 1; }
    let wm: &Matrix3<W8> = want.as_ref();
    let p: Basis3<W8> = b3[..n].iter().product();
    let pm: &Matrix3<W8> = p.as_ref();
    let k: usize = kani::any();
    let r: usize = kani::any();
    kani::assume(k < 3 && r < 3);
    assert!(pm[k][r] == wm[k][r]);
    let p: Basis3<W8> = b3[..n].iter().cloned().product();
    let pm: &Matrix3<W8> = p.as_ref();
    assert!(pm[k][r] == wm[k][r]);
}
