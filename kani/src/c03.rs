//! C03 over the INTEGER scalar types ("the same identities over the integer scalar types where no overflow occurs").
//! The Verus units decide C03 over exact reals; over a field `v / s` and `v * (1 / s)` are the same function, over the
//! integers they are not.  These harnesses are loop-free and quantify over ALL i8 component values (full domain: complete
//! proofs, not bounded), with the no-overflow precondition of the property as an assumption, against an i32 reference.
use cgmath::*;

fn fits(x: i32) -> bool { x >= -128 && x <= 127 }
/// right fold (the crate's `fold_array!` nests to the right: x op (y op (z op w))); None if an intermediate value leaves i8
fn rfold(xs: &[i32], mul: bool) -> Option<i32> {
    let mut i = xs.len() - 1;
    let mut acc = xs[i];
    while i > 0 {
        i -= 1;
        acc = if mul { xs[i] * acc } else { xs[i] + acc };
        if !fits(acc) { return None; }
    }
    Some(acc)
}

macro_rules! int_vector {
    ($m:ident, $V:ident, $n:expr, [$($f:ident),+]) => {
        mod $m {
            use super::*;
            fn any_v() -> $V<i8> { $V { $($f: kani::any()),+ } }
            #[kani::proof]
            fn add_sub_neg() {
                let (u, v) = (any_v(), any_v());
                $( kani::assume(fits(u.$f as i32 + v.$f as i32) && fits(u.$f as i32 - v.$f as i32) && u.$f != i8::MIN); )+
                let (a, s, n) = (u + v, u - v, -u);
                $( assert!(a.$f as i32 == u.$f as i32 + v.$f as i32 && s.$f as i32 == u.$f as i32 - v.$f as i32 && n.$f as i32 == -(u.$f as i32)); )+
                let z = $V::<i8>::zero();
                assert!(u + z == u && z + u == u);
                let (ae, se) = (u.add_element_wise(v), u.sub_element_wise(v));
                $( assert!(ae.$f == a.$f && se.$f == s.$f); )+
            }
            #[kani::proof]
            fn scalar_mul_div_rem() {
                let u = any_v();
                let k: i8 = kani::any();
                $( kani::assume(fits(u.$f as i32 * k as i32)); )+
                let m = u * k;
                $( assert!(m.$f as i32 == u.$f as i32 * k as i32); )+
                kani::assume(k != 0);
                $( kani::assume(!(u.$f == i8::MIN && k == -1)); )+
                let (d, r) = (u / k, u % k);
                $( assert!(d.$f as i32 == (u.$f as i32) / (k as i32) && r.$f as i32 == (u.$f as i32) % (k as i32)); )+
                let (de, re) = (u.div_element_wise(k), u.rem_element_wise(k));
                $( assert!(de.$f == d.$f && re.$f == r.$f); )+
                let mut w = u; w /= k;
                $( assert!(w.$f == d.$f); )+
                let mut w = u; w %= k;
                $( assert!(w.$f == r.$f); )+
                let mut w = u; w *= k;
                $( assert!(w.$f == m.$f); )+
            }
            #[kani::proof]
            #[kani::unwind(5)]
            fn element_wise_mul_div_dot() {
                let (u, v) = (any_v(), any_v());
                $( kani::assume(fits(u.$f as i32 * v.$f as i32)); )+
                let m = u.mul_element_wise(v);
                $( assert!(m.$f as i32 == u.$f as i32 * v.$f as i32); )+
                // dot = mul_element_wise().sum(): the products, then a right fold of the sum
                let acc = rfold(&[$(u.$f as i32 * v.$f as i32),+], false);
                kani::assume(acc.is_some());
                assert!(u.dot(v) as i32 == acc.unwrap() && v.dot(u) as i32 == acc.unwrap());
                $( kani::assume(fits(u.$f as i32 * u.$f as i32)); )+
                let sq = rfold(&[$(u.$f as i32 * u.$f as i32),+], false);
                kani::assume(sq.is_some());
                assert!(u.magnitude2() as i32 == sq.unwrap());
                $( kani::assume(v.$f != 0 && !(u.$f == i8::MIN && v.$f == -1)); )+
                let (d, r) = (u.div_element_wise(v), u.rem_element_wise(v));
                $( assert!(d.$f as i32 == (u.$f as i32) / (v.$f as i32) && r.$f as i32 == (u.$f as i32) % (v.$f as i32)); )+
            }
            #[kani::proof]
            fn operator_forms() {
                // every by-value / by-reference / compound-assignment spelling agrees with the by-value operator (C17 over i8)
                let (u, v) = (any_v(), any_v());
                let k: i8 = kani::any();
                $( kani::assume(fits(u.$f as i32 + v.$f as i32) && fits(u.$f as i32 - v.$f as i32) && fits(u.$f as i32 * k as i32) && u.$f != i8::MIN); )+
                kani::assume(k != 0 && k != -1);
                let (a, s, m, d, r, n) = (u + v, u - v, u * k, u / k, u % k, -u);
                assert!(&u + v == a && u + &v == a && &u + &v == a);
                assert!(&u - v == s && u - &v == s && &u - &v == s);
                assert!(&u * k == m && &u / k == d && &u % k == r);
                let mut w = u; w += v; assert!(w == a);
                let mut w = u; w -= v; assert!(w == s);
                let mut w = u; w *= k; assert!(w == m);
                let mut w = u; w /= k; assert!(w == d);
                let mut w = u; w %= k; assert!(w == r);
            }
            #[kani::proof]
            #[kani::unwind(5)]
            fn sum_product() {
                let u = any_v();
                let (s, p) = (rfold(&[$(u.$f as i32),+], false), rfold(&[$(u.$f as i32),+], true));
                kani::assume(s.is_some() && p.is_some());
                let (s, p) = (s.unwrap(), p.unwrap());
                assert!(u.sum() as i32 == s && u.product() as i32 == p);
            }
        }
    };
}
int_vector!(v1, Vector1, 1, [x]);
int_vector!(v2, Vector2, 2, [x, y]);
int_vector!(v3, Vector3, 3, [x, y, z]);
int_vector!(v4, Vector4, 4, [x, y, z, w]);

#[kani::proof]
fn cross_perp_dot() {
    let u = Vector3::<i8>::new(kani::any(), kani::any(), kani::any());
    let v = Vector3::<i8>::new(kani::any(), kani::any(), kani::any());
    let p = |a: i8, b: i8| a as i32 * b as i32;
    kani::assume(fits(p(u.y, v.z)) && fits(p(u.z, v.y)) && fits(p(u.z, v.x)) && fits(p(u.x, v.z)) && fits(p(u.x, v.y)) && fits(p(u.y, v.x)));
    let (cx, cy, cz) = (p(u.y, v.z) - p(u.z, v.y), p(u.z, v.x) - p(u.x, v.z), p(u.x, v.y) - p(u.y, v.x));
    kani::assume(fits(cx) && fits(cy) && fits(cz));
    let c = u.cross(v);
    assert!(c.x as i32 == cx && c.y as i32 == cy && c.z as i32 == cz);
    let a = Vector2::<i8>::new(u.x, u.y);
    let b = Vector2::<i8>::new(v.x, v.y);
    assert!(a.perp_dot(b) as i32 == cz);
}
