//! W8: an 8-bit wrapping ring that implements cgmath's `BaseFloat`, so that code bounded by `BaseFloat`
//! (matrix / quaternion / basis products, `iter::Product`) can be run through CBMC with multiplications it can compare.
//! The code under test is the real generic code monomorphised at W8; transcendental methods are unreachable.
use approx::{AbsDiffEq, RelativeEq, UlpsEq};
use num_traits::{Float, Num, NumCast, One, ToPrimitive, Zero};
use std::fmt;
use std::num::FpCategory;
use std::ops::*;

#[derive(Clone, Copy, PartialEq, PartialOrd, Debug)]
pub struct W8(pub u8);

impl kani::Arbitrary for W8 {
    fn any() -> Self { W8(kani::any()) }
}
macro_rules! bin {
    ($T:ident, $m:ident, $f:ident) => {
        impl $T for W8 { type Output = W8; fn $m(self, o: W8) -> W8 { W8(self.0.$f(o.0)) } }
    };
}
bin!(Add, add, wrapping_add);
bin!(Sub, sub, wrapping_sub);
bin!(Mul, mul, wrapping_mul);
impl Div for W8 { type Output = W8; fn div(self, o: W8) -> W8 { W8(if o.0 == 0 { 0 } else { self.0 / o.0 }) } }
impl Rem for W8 { type Output = W8; fn rem(self, o: W8) -> W8 { W8(if o.0 == 0 { 0 } else { self.0 % o.0 }) } }
impl Neg for W8 { type Output = W8; fn neg(self) -> W8 { W8(self.0.wrapping_neg()) } }
macro_rules! asg {
    ($T:ident, $m:ident, $op:tt) => { impl $T for W8 { fn $m(&mut self, o: W8) { *self = *self $op o; } } };
}
asg!(AddAssign, add_assign, +);
asg!(SubAssign, sub_assign, -);
asg!(MulAssign, mul_assign, *);
asg!(DivAssign, div_assign, /);
asg!(RemAssign, rem_assign, %);
impl Zero for W8 { fn zero() -> W8 { W8(0) } fn is_zero(&self) -> bool { self.0 == 0 } }
impl One for W8 { fn one() -> W8 { W8(1) } }
impl Num for W8 { type FromStrRadixErr = (); fn from_str_radix(_: &str, _: u32) -> Result<W8, ()> { Err(()) } }
impl ToPrimitive for W8 {
    fn to_i64(&self) -> Option<i64> { Some(self.0 as i64) }
    fn to_u64(&self) -> Option<u64> { Some(self.0 as u64) }
    fn to_f64(&self) -> Option<f64> { Some(self.0 as f64) }
}
impl NumCast for W8 {
    fn from<T: ToPrimitive>(n: T) -> Option<W8> { n.to_u64().map(|x| W8(x as u8)) }
}
impl AbsDiffEq for W8 {
    type Epsilon = W8;
    fn default_epsilon() -> W8 { W8(0) }
    fn abs_diff_eq(&self, o: &W8, _e: W8) -> bool { self.0 == o.0 }
}
impl RelativeEq for W8 {
    fn default_max_relative() -> W8 { W8(0) }
    fn relative_eq(&self, o: &W8, _e: W8, _m: W8) -> bool { self.0 == o.0 }
}
impl UlpsEq for W8 {
    fn default_max_ulps() -> u32 { 0 }
    fn ulps_eq(&self, o: &W8, _e: W8, _m: u32) -> bool { self.0 == o.0 }
}
macro_rules! unreach0 { ($($f:ident),*) => { $(fn $f() -> W8 { unreachable!() })* } }
macro_rules! unreach1 { ($($f:ident),*) => { $(fn $f(self) -> W8 { unreachable!() })* } }
macro_rules! unreach2 { ($($f:ident),*) => { $(fn $f(self, _o: W8) -> W8 { unreachable!() })* } }
macro_rules! unreachb { ($($f:ident),*) => { $(fn $f(self) -> bool { unreachable!() })* } }
impl Float for W8 {
    unreach0!(nan, infinity, neg_infinity, neg_zero, min_value, min_positive_value, max_value);
    unreachb!(is_nan, is_infinite, is_finite, is_normal, is_sign_positive, is_sign_negative);
    fn classify(self) -> FpCategory { unreachable!() }
    unreach1!(floor, ceil, round, trunc, fract, abs, signum, recip, sqrt, exp, exp2, ln, log2, log10, cbrt, sin, cos, tan, asin, acos, atan,
              exp_m1, ln_1p, sinh, cosh, tanh, asinh, acosh, atanh);
    unreach2!(powf, log, max, min, abs_sub, hypot, atan2);
    fn mul_add(self, _a: W8, _b: W8) -> W8 { unreachable!() }
    fn powi(self, _n: i32) -> W8 { unreachable!() }
    fn sin_cos(self) -> (W8, W8) { unreachable!() }
    fn integer_decode(self) -> (u64, i16, i8) { unreachable!() }
}
