#![allow(dead_code, unused_imports, unused_variables, unused_assignments, unused_mut)]
#[cfg(kani)]
mod c16;
