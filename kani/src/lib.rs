#![allow(dead_code, unused_imports, unused_variables, unused_assignments, unused_mut)]
#[cfg(kani)]
mod c16;
#[cfg(kani)]
mod c19;
#[cfg(kani)]
mod c02;
#[cfg(kani)]
mod c12;
#[cfg(kani)]
mod c03;
#[cfg(kani)]
mod c17;
#[cfg(kani)]
mod w8;
#[cfg(kani)]
mod c17p;
#[cfg(kani)]
mod c18;
#[cfg(kani)]
mod c20;
