//! C17 (compiled-crate part) — scalar on the left applies the primitive operation per component with the scalar as
//! LEFT operand (u8 / i8, under no-overflow and non-zero-divisor assumptions with a cover guard); Sum over iterators
//! equals the left fold from zero() (BOUNDED: at most 4 elements).
use cgmath::*;

macro_rules! scalar_left {
    ($m:ident, $P:ty) => {
        mod $m {
            use super::*;
            fn mul_ok(s: $P, x: $P) -> bool { s.checked_mul(x).is_some() }
            fn div_ok(s: $P, x: $P) -> bool { s.checked_div(x).is_some() }
            #[kani::proof]
            fn vectors_points() {
                let s: $P = kani::any();
                let a: [$P; 4] = kani::any();
                kani::assume(mul_ok(s, a[0]) && mul_ok(s, a[1]) && mul_ok(s, a[2]) && mul_ok(s, a[3]));
                kani::assume(div_ok(s, a[0]) && div_ok(s, a[1]) && div_ok(s, a[2]) && div_ok(s, a[3]));
                kani::cover!(s > 1 && a[0] > 1 && a[3] != a[0]);
                let v4 = Vector4::new(a[0], a[1], a[2], a[3]);
                let r = s * v4;
                assert!(r.x == s * a[0] && r.y == s * a[1] && r.z == s * a[2] && r.w == s * a[3]);
                let r = s / v4;
                assert!(r.x == s / a[0] && r.y == s / a[1] && r.z == s / a[2] && r.w == s / a[3]);
                let r = s % v4;
                assert!(r.x == s % a[0] && r.y == s % a[1] && r.z == s % a[2] && r.w == s % a[3]);
                let r = s * &v4;
                assert!(r.x == s * a[0] && r.w == s * a[3]);
                let r = s / &v4;
                assert!(r.y == s / a[1] && r.z == s / a[2]);
                let r = s % &v4;
                assert!(r.x == s % a[0] && r.w == s % a[3]);
                let v3 = Vector3::new(a[0], a[1], a[2]);
                let r = s / v3;
                assert!(r.x == s / a[0] && r.y == s / a[1] && r.z == s / a[2]);
                let r = s % &v3;
                assert!(r.x == s % a[0] && r.y == s % a[1] && r.z == s % a[2]);
                let r = s * v3;
                assert!(r.x == s * a[0] && r.y == s * a[1] && r.z == s * a[2]);
                let v2 = Vector2::new(a[0], a[1]);
                let r = s / v2;
                assert!(r.x == s / a[0] && r.y == s / a[1]);
                let r = s * &v2;
                assert!(r.x == s * a[0] && r.y == s * a[1]);
                let r = s % Vector1::new(a[0]);
                assert!(r.x == s % a[0]);
                let p3 = Point3::new(a[0], a[1], a[2]);
                let r = s / p3;
                assert!(r.x == s / a[0] && r.y == s / a[1] && r.z == s / a[2]);
                let r = s * &p3;
                assert!(r.x == s * a[0] && r.y == s * a[1] && r.z == s * a[2]);
                let r = s % Point2::new(a[0], a[1]);
                assert!(r.x == s % a[0] && r.y == s % a[1]);
                let r = s / Point1::new(a[0]);
                assert!(r.x == s / a[0]);
            }
            #[kani::proof]
            fn matrices() {
                let s: $P = kani::any();
                let a: [$P; 4] = kani::any();
                kani::assume(mul_ok(s, a[0]) && mul_ok(s, a[1]) && mul_ok(s, a[2]) && mul_ok(s, a[3]));
                kani::assume(div_ok(s, a[0]) && div_ok(s, a[1]) && div_ok(s, a[2]) && div_ok(s, a[3]));
                kani::cover!(s > 1 && a[0] > 1);
                let m = Matrix2::new(a[0], a[1], a[2], a[3]);
                let r = s * m;
                assert!(r.x.x == s * a[0] && r.x.y == s * a[1] && r.y.x == s * a[2] && r.y.y == s * a[3]);
                let r = s / m;
                assert!(r.x.x == s / a[0] && r.x.y == s / a[1] && r.y.x == s / a[2] && r.y.y == s / a[3]);
                let r = s % &m;
                assert!(r.x.x == s % a[0] && r.x.y == s % a[1] && r.y.x == s % a[2] && r.y.y == s % a[3]);
            }
        }
    };
}
scalar_left!(left_u8, u8);
scalar_left!(left_i8, i8);

mod sums {
    use super::*;
    #[kani::proof]
    #[kani::unwind(6)]
    fn vector3_sum_by_value_and_by_ref() {
        let raw: [[i32; 3]; 4] = kani::any();
        let n: usize = kani::any();
        kani::assume(n <= 4);
        let all = [Vector3::new(raw[0][0], raw[0][1], raw[0][2]), Vector3::new(raw[1][0], raw[1][1], raw[1][2]),
                   Vector3::new(raw[2][0], raw[2][1], raw[2][2]), Vector3::new(raw[3][0], raw[3][1], raw[3][2])];
        let mut want = [0i32; 3];
        let mut i = 0;
        while i < n {
            let mut k = 0;
            while k < 3 {
                let t = want[k].checked_add(raw[i][k]);
                kani::assume(t.is_some());
                want[k] = t.unwrap();
                k += 1;
            }
            i += 1;
        }
        let s: Vector3<i32> = all[..n].iter().sum();
        assert!(s.x == want[0] && s.y == want[1] && s.z == want[2]);
        let s: Vector3<i32> = all[..n].iter().cloned().sum();
        assert!(s.x == want[0] && s.y == want[1] && s.z == want[2]);
    }
    #[kani::proof]
    #[kani::unwind(5)]
    fn angle_sum_is_left_fold() {
        let raw: [f32; 3] = kani::any();
        let n: usize = kani::any();
        kani::assume(n <= 3);
        let all = [Rad(raw[0]), Rad(raw[1]), Rad(raw[2])];
        let mut want = 0.0f32;
        let mut i = 0;
        while i < n { want = want + raw[i]; i += 1; }
        let s: Rad<f32> = all[..n].iter().sum();
        assert!(s.0.to_bits() == want.to_bits() || (s.0.is_nan() && want.is_nan()));
        let s: Rad<f32> = all[..n].iter().cloned().sum();
        assert!(s.0.to_bits() == want.to_bits() || (s.0.is_nan() && want.is_nan()));
    }
}
