//! C02 (representation part) — swap_rows / swap_columns / swap_elements exchange exactly the named rows, columns or
//! elements, replace_col installs the column and returns the old one, transpose_self() == transpose(), bit for bit.
//! Loop-free; elements are symbolic f32 bit patterns, indices fully symbolic (including a == b): complete proofs.
use cgmath::*;
use crate::c16::Same;

macro_rules! swaps {
    ($m:ident, $M:ident, $V:ident, $n:expr) => {
        mod $m {
            use super::*;
            fn anym() -> $M<f32> {
                let a: [[f32; $n]; $n] = kani::any();
                a.into()
            }
            #[kani::proof]
            fn swap_rows_columns_elements() {
                let m0 = anym();
                let a: usize = kani::any();
                let b: usize = kani::any();
                kani::assume(a < $n && b < $n);
                let c: usize = kani::any();
                let r: usize = kani::any();
                kani::assume(c < $n && r < $n);
                // rows
                let mut m = m0;
                m.swap_rows(a, b);
                let want = if r == a { m0[c][b] } else if r == b { m0[c][a] } else { m0[c][r] };
                assert!(m[c][r].same(want));
                // columns
                let mut m = m0;
                m.swap_columns(a, b);
                let want = if c == a { m0[b][r] } else if c == b { m0[a][r] } else { m0[c][r] };
                assert!(m[c][r].same(want));
                // elements
                let ar: usize = kani::any();
                let br: usize = kani::any();
                kani::assume(ar < $n && br < $n);
                let mut m = m0;
                Matrix::swap_elements(&mut m, (a, ar), (b, br));
                let want = if (c, r) == (a, ar) { m0[b][br] } else if (c, r) == (b, br) { m0[a][ar] } else { m0[c][r] };
                assert!(m[c][r].same(want));
            }
            #[kani::proof]
            fn replace_col_and_transpose_self() {
                let m0 = anym();
                let k: usize = kani::any();
                kani::assume(k < $n);
                let c: usize = kani::any();
                let r: usize = kani::any();
                kani::assume(c < $n && r < $n);
                let col: [f32; $n] = kani::any();
                let mut m = m0;
                let old = m.replace_col(k, col.into());
                assert!(old[r].same(m0[k][r]));
                let want = if c == k { col[r] } else { m0[c][r] };
                assert!(m[c][r].same(want));
                let mut t = m0;
                t.transpose_self();
                assert!(t[c][r].same(m0[r][c]));
                assert!(t[c][r].same(m0.transpose()[c][r]));
            }
            #[kani::proof]
            #[kani::should_panic]
            fn swap_out_of_range_panics() {
                let mut m = anym();
                let a: usize = kani::any();
                kani::assume(a >= $n);
                m.swap_columns(a, 0);
            }
        }
    };
}
swaps!(m2, Matrix2, Vector2, 2);
swaps!(m3, Matrix3, Vector3, 3);
swaps!(m4, Matrix4, Vector4, 4);
