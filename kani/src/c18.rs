//! C18 (compiled-crate part) — abs_diff_eq / ulps_eq of compound values hold exactly when the scalar comparison with the
//! same tolerances holds for every component pair; is_finite iff every component is finite.  Real `approx` crate, f32,
//! fully symbolic values and tolerances; only float subtraction / comparison / to_bits are involved.  Loop-free: complete.
use approx::{AbsDiffEq, UlpsEq};
use cgmath::*;

#[kani::proof]
fn vector_point_abs_diff_and_ulps() {
    let a: [f32; 4] = kani::any();
    let b: [f32; 4] = kani::any();
    let eps: f32 = kani::any();
    let mu: u32 = kani::any();
    let (u, v) = (Vector4::new(a[0], a[1], a[2], a[3]), Vector4::new(b[0], b[1], b[2], b[3]));
    let ad = |i: usize| a[i].abs_diff_eq(&b[i], eps);
    let ul = |i: usize| a[i].ulps_eq(&b[i], eps, mu);
    assert!(u.abs_diff_eq(&v, eps) == (ad(0) && ad(1) && ad(2) && ad(3)));
    assert!(u.ulps_eq(&v, eps, mu) == (ul(0) && ul(1) && ul(2) && ul(3)));
    let (u, v) = (Vector3::new(a[0], a[1], a[2]), Vector3::new(b[0], b[1], b[2]));
    assert!(u.abs_diff_eq(&v, eps) == (ad(0) && ad(1) && ad(2)));
    assert!(u.ulps_eq(&v, eps, mu) == (ul(0) && ul(1) && ul(2)));
    let (p, q) = (Point2::new(a[0], a[1]), Point2::new(b[0], b[1]));
    assert!(p.abs_diff_eq(&q, eps) == (ad(0) && ad(1)));
    assert!(p.ulps_eq(&q, eps, mu) == (ul(0) && ul(1)));
    let (p, q) = (Point3::new(a[0], a[1], a[2]), Point3::new(b[0], b[1], b[2]));
    assert!(p.ulps_eq(&q, eps, mu) == (ul(0) && ul(1) && ul(2)));
    assert!(Rad(a[0]).ulps_eq(&Rad(b[0]), eps, mu) == ul(0) && Deg(a[1]).abs_diff_eq(&Deg(b[1]), eps) == ad(1));
}

#[kani::proof]
fn quaternion_matrix2_abs_diff_and_ulps() {
    let a: [f32; 4] = kani::any();
    let b: [f32; 4] = kani::any();
    let eps: f32 = kani::any();
    let mu: u32 = kani::any();
    let ad = |i: usize| a[i].abs_diff_eq(&b[i], eps);
    let ul = |i: usize| a[i].ulps_eq(&b[i], eps, mu);
    let (p, q) = (Quaternion::new(a[3], a[0], a[1], a[2]), Quaternion::new(b[3], b[0], b[1], b[2]));
    assert!(p.abs_diff_eq(&q, eps) == (ad(0) && ad(1) && ad(2) && ad(3)));
    assert!(p.ulps_eq(&q, eps, mu) == (ul(0) && ul(1) && ul(2) && ul(3)));
    let (m, n) = (Matrix2::new(a[0], a[1], a[2], a[3]), Matrix2::new(b[0], b[1], b[2], b[3]));
    assert!(m.abs_diff_eq(&n, eps) == (ad(0) && ad(1) && ad(2) && ad(3)));
    assert!(m.ulps_eq(&n, eps, mu) == (ul(0) && ul(1) && ul(2) && ul(3)));
}

#[kani::proof]
fn is_finite_every_component() {
    let a: [f32; 9] = kani::any();
    let fin = |i: usize| a[i].is_finite();
    assert!(Vector4::new(a[0], a[1], a[2], a[3]).is_finite() == (fin(0) && fin(1) && fin(2) && fin(3)));
    assert!(Vector2::new(a[0], a[1]).is_finite() == (fin(0) && fin(1)));
    assert!(Point3::new(a[0], a[1], a[2]).is_finite() == (fin(0) && fin(1) && fin(2)));
    assert!(Quaternion::new(a[3], a[0], a[1], a[2]).is_finite() == (fin(0) && fin(1) && fin(2) && fin(3)));
    let m = Matrix3::new(a[0], a[1], a[2], a[3], a[4], a[5], a[6], a[7], a[8]);
    assert!(m.is_finite() == (fin(0) && fin(1) && fin(2) && fin(3) && fin(4) && fin(5) && fin(6) && fin(7) && fin(8)));
}

