//! C12 (centroid) — BOUNDED stand-in: the iterator fold of EuclideanSpace::centroid for 1..=4 points of i8 components
//! equals the left fold of the position vectors from zero(), divided by n.  Bound: n <= 4 (one harness per n), i8 components
//! with no overflow assumed.  Not counted as proved.
use cgmath::*;

macro_rules! centroid {
    ($name:ident, $n:expr) => {
        #[kani::proof]
        #[kani::unwind(7)]
        fn $name() {
            let raw: [[i8; 2]; $n] = kani::any();
            let mut pts = [Point2::new(0i8, 0i8); $n];
            let mut sx: i32 = 0;
            let mut sy: i32 = 0;
            let mut i = 0;
            while i < $n {
                pts[i] = Point2::new(raw[i][0], raw[i][1]);
                sx += raw[i][0] as i32;
                sy += raw[i][1] as i32;
                // no intermediate overflow in i8
                kani::assume(sx >= -128 && sx <= 127 && sy >= -128 && sy <= 127);
                i += 1;
            }
            let c = Point2::centroid(&pts);
            assert!(c.x as i32 == sx / ($n as i32) && c.y as i32 == sy / ($n as i32));
        }
    };
}
centroid!(centroid_1, 1);
centroid!(centroid_2, 2);
centroid!(centroid_3, 3);
centroid!(centroid_4, 4);

#[kani::proof]
#[kani::unwind(6)]
fn centroid3_of_three() {
    let raw: [[i8; 3]; 3] = kani::any();
    let pts = [Point3::new(raw[0][0], raw[0][1], raw[0][2]), Point3::new(raw[1][0], raw[1][1], raw[1][2]), Point3::new(raw[2][0], raw[2][1], raw[2][2])];
    let s = |k: usize| raw[0][k] as i32 + raw[1][k] as i32 + raw[2][k] as i32;
    let p = |k: usize| raw[0][k] as i32 + raw[1][k] as i32;
    kani::assume((0..3).all(|k| p(k) >= -128 && p(k) <= 127 && s(k) >= -128 && s(k) <= 127));
    let c = Point3::centroid(&pts);
    assert!(c.x as i32 == s(0) / 3 && c.y as i32 == s(1) / 3 && c.z as i32 == s(2) / 3);
}
