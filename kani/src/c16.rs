//! C16 — layout, indexing, conversions preserve every component in order.
//! Every harness is loop-free (range comparisons are unrolled by hand) with fully symbolic inputs: complete proofs.
//! Expected values come from the property statement (field order x, y, z, w; quaternion x, y, z, s; column-major),
//! never from the code under test.
use cgmath::*;

/// bit-exact comparison (floats by bit pattern, so NaN payloads and -0.0 count)
pub trait Same: Copy {
    fn same(self, o: Self) -> bool;
}
macro_rules! same_eq { ($($t:ty),*) => { $(impl Same for $t { fn same(self, o: Self) -> bool { self == o } })* } }
same_eq!(u8, u16, u32, u64, i8, i16, i32, i64, usize, isize, [u8; 3]);
impl Same for f32 {
    fn same(self, o: Self) -> bool { self.to_bits() == o.to_bits() }
}
impl Same for f64 {
    fn same(self, o: Self) -> bool { self.to_bits() == o.to_bits() }
}

macro_rules! array_type {
    ($m:ident, $T:ident, $E:ty, $n:expr, ($($f:ident : $i:expr),+), $Tup:ty, ($($tf:tt),+)) => {
        mod $m {
            use super::*;
            fn anyv() -> ($T<$E>, [$E; $n]) {
                let a: [$E; $n] = kani::any();
                ($T { $($f: a[$i]),+ }, a)
            }
            #[kani::proof]
            fn from_into_array() {
                let a: [$E; $n] = kani::any();
                let v: $T<$E> = a.into();
                $(assert!(v.$f.same(a[$i]));)+
                let b: [$E; $n] = v.into();
                $(assert!(b[$i].same(a[$i]));)+
            }
            #[kani::proof]
            fn from_into_tuple() {
                let (v, a) = anyv();
                let t: $Tup = v.into();
                $(assert!(t.$tf.same(a[$tf]));)+
                let w: $T<$E> = t.into();
                $(assert!(w.$f.same(a[$i]));)+
            }
            #[kani::proof]
            fn as_ref_array_tuple() {
                let (v, a) = anyv();
                let r: &[$E; $n] = v.as_ref();
                $(assert!(r[$i].same(a[$i]));)+
                let t: &$Tup = v.as_ref();
                $(assert!(t.$tf.same(a[$tf]));)+
            }
            #[kani::proof]
            fn ref_conversions() {
                let a: [$E; $n] = kani::any();
                let v: &$T<$E> = (&a).into();
                $(assert!(v.$f.same(a[$i]));)+
                let mut b: [$E; $n] = kani::any();
                let b0 = b;
                let x: $E = kani::any();
                let k: usize = kani::any();
                kani::assume(k < $n);
                {
                    let vm: &mut $T<$E> = (&mut b).into();
                    vm[k] = x;
                }
                $(assert!(if $i == k { b[$i].same(x) } else { b[$i].same(b0[$i]) });)+
                let mut t: $Tup = kani::any();
                let vt: &$T<$E> = (&t).into();
                $(assert!(vt.$f.same(t.$tf));)+
                let t0 = t;
                {
                    let vtm: &mut $T<$E> = (&mut t).into();
                    vtm[k] = x;
                }
                $(assert!(if $i == k { t.$tf.same(x) } else { t.$tf.same(t0.$tf) });)+
            }
            #[kani::proof]
            fn index_usize() {
                let (v, a) = anyv();
                let k: usize = kani::any();
                kani::assume(k < $n);
                assert!(v[k].same(a[k]));
            }
            #[kani::proof]
            #[kani::should_panic]
            fn index_out_of_range_panics() {
                let (v, _a) = anyv();
                let k: usize = kani::any();
                kani::assume(k >= $n);
                let _ = v[k];
            }
            #[kani::proof]
            #[kani::should_panic]
            fn index_mut_out_of_range_panics() {
                let (mut v, _a) = anyv();
                let k: usize = kani::any();
                kani::assume(k >= $n);
                v[k] = kani::any();
            }
            #[kani::proof]
            fn index_ranges() {
                let (v, a) = anyv();
                let lo: usize = kani::any();
                let hi: usize = kani::any();
                kani::assume(lo <= hi && hi <= $n);
                let s = &v[lo..hi];
                assert!(s.len() == hi - lo);
                $(if $i >= lo && $i < hi { assert!(s[$i - lo].same(a[$i])); })+
                let s = &v[..hi];
                assert!(s.len() == hi);
                $(if $i < hi { assert!(s[$i].same(a[$i])); })+
                let s = &v[lo..];
                assert!(s.len() == $n - lo);
                $(if $i >= lo { assert!(s[$i - lo].same(a[$i])); })+
                let s = &v[..];
                assert!(s.len() == $n);
                $(assert!(s[$i].same(a[$i]));)+
            }
            #[kani::proof]
            fn writes_visible_through_every_view() {
                let (mut v, a) = anyv();
                let k: usize = kani::any();
                kani::assume(k < $n);
                let x: $E = kani::any();
                let which: u8 = kani::any();
                match which % 4 {
                    0 => { v[k] = x; }
                    1 => { let m: &mut [$E; $n] = v.as_mut(); m[k] = x; }
                    2 => { let s = &mut v[..]; s[k] = x; }
                    _ => { let s = &mut v[k..]; s[0] = x; }
                }
                $(assert!(if $i == k { v.$f.same(x) } else { v.$f.same(a[$i]) });)+
                let r: &[$E; $n] = v.as_ref();
                $(assert!(r[$i].same(v.$f));)+
                let t: &$Tup = v.as_ref();
                $(assert!(t.$tf.same(v.$f));)+
                let mut w = v;
                { let tm: &mut $Tup = w.as_mut(); tm.0 = x; }
                assert!(w.x.same(x));
            }
            #[kani::proof]
            fn raw_pointers_and_swap() {
                let (mut v, a) = anyv();
                let k: usize = kani::any();
                let j: usize = kani::any();
                kani::assume(k < $n && j < $n);
                let p = v.as_ptr();
                assert!(unsafe { *p.add(k) }.same(a[k]));
                let x: $E = kani::any();
                unsafe { *v.as_mut_ptr().add(k) = x; }
                assert!(v[k].same(x));
                let b: [$E; $n] = v.into();
                v.swap_elements(k, j);
                $(assert!(if $i == k { v.$f.same(b[j]) } else if $i == j { v.$f.same(b[k]) } else { v.$f.same(b[$i]) });)+
            }
            #[kani::proof]
            fn from_value_len() {
                let x: $E = kani::any();
                let v = <$T<$E> as Array>::from_value(x);
                $(assert!(v.$f.same(x));)+
                assert!(<$T<$E> as Array>::len() == $n);
            }
        }
    };
}

macro_rules! map_zip {
    ($m:ident, $T:ident, $n:expr, ($($f:ident),+)) => {
        mod $m {
            use super::*;
            /// an arbitrary pure function u8 -> u8 / (u8,u8) -> u8 given by a symbolic table
            #[kani::proof]
            fn map_zip_apply_the_function_per_component() {
                let t1: [u8; 256] = kani::any();
                let a: [u8; $n] = kani::any();
                let b: [u8; $n] = kani::any();
                let v: $T<u8> = a.into();
                let w: $T<u8> = b.into();
                let m = v.map(|x| t1[x as usize]);
                let mut i = 0;
                $(assert!(m.$f == t1[a[i] as usize]); i += 1;)+
                let z = v.zip(w, |x, y| t1[(x ^ y.rotate_left(3)) as usize]);
                let mut i = 0;
                $(assert!(z.$f == t1[(a[i] ^ b[i].rotate_left(3)) as usize]); i += 1;)+
                let _ = i;
            }
        }
    };
}

array_type!(v1_u32, Vector1, u32, 1, (x: 0), (u32,), (0));
array_type!(v2_u32, Vector2, u32, 2, (x: 0, y: 1), (u32, u32), (0, 1));
array_type!(v3_u32, Vector3, u32, 3, (x: 0, y: 1, z: 2), (u32, u32, u32), (0, 1, 2));
array_type!(v4_u32, Vector4, u32, 4, (x: 0, y: 1, z: 2, w: 3), (u32, u32, u32, u32), (0, 1, 2, 3));
array_type!(p1_u32, Point1, u32, 1, (x: 0), (u32,), (0));
array_type!(p2_u32, Point2, u32, 2, (x: 0, y: 1), (u32, u32), (0, 1));
array_type!(p3_u32, Point3, u32, 3, (x: 0, y: 1, z: 2), (u32, u32, u32), (0, 1, 2));
array_type!(v3_f32, Vector3, f32, 3, (x: 0, y: 1, z: 2), (f32, f32, f32), (0, 1, 2));
array_type!(v4_f32, Vector4, f32, 4, (x: 0, y: 1, z: 2, w: 3), (f32, f32, f32, f32), (0, 1, 2, 3));
array_type!(v3_nonnum, Vector3, [u8; 3], 3, (x: 0, y: 1, z: 2), ([u8; 3], [u8; 3], [u8; 3]), (0, 1, 2));
map_zip!(v2_mapzip, Vector2, 2, (x, y));
map_zip!(v3_mapzip, Vector3, 3, (x, y, z));
map_zip!(v4_mapzip, Vector4, 4, (x, y, z, w));
map_zip!(p3_mapzip, Point3, 3, (x, y, z));

mod reshape {
    use super::*;
    #[kani::proof]
    fn extend_truncate() {
        let a: [u32; 4] = kani::any();
        let v2 = Vector2::new(a[0], a[1]);
        let v3 = v2.extend(a[2]);
        assert!(v3.x == a[0] && v3.y == a[1] && v3.z == a[2]);
        let v4 = v3.extend(a[3]);
        assert!(v4.x == a[0] && v4.y == a[1] && v4.z == a[2] && v4.w == a[3]);
        let t3 = v4.truncate();
        assert!(t3.x == a[0] && t3.y == a[1] && t3.z == a[2]);
        let t2 = t3.truncate();
        assert!(t2.x == a[0] && t2.y == a[1]);
        let n: isize = kani::any();
        kani::assume(0 <= n && n < 4);
        let d = v4.truncate_n(n);
        let e = match n { 0 => [a[1], a[2], a[3]], 1 => [a[0], a[2], a[3]], 2 => [a[0], a[1], a[3]], _ => [a[0], a[1], a[2]] };
        assert!(d.x == e[0] && d.y == e[1] && d.z == e[2]);
    }
    #[kani::proof]
    #[kani::should_panic]
    fn truncate_n_out_of_range_panics() {
        let v: Vector4<u32> = Vector4::new(kani::any(), kani::any(), kani::any(), kani::any());
        let n: isize = kani::any();
        kani::assume(n < 0 || n > 3);
        let _ = v.truncate_n(n);
    }
    #[kani::proof]
    fn point_homogeneous_and_vec_views() {
        let a: [u32; 3] = kani::any();
        let p = Point3::new(a[0], a[1], a[2]);
        let v = p.to_vec();
        assert!(v.x == a[0] && v.y == a[1] && v.z == a[2]);
        let q = Point3::from_vec(v);
        assert!(q.x == a[0] && q.y == a[1] && q.z == a[2]);
    }
    #[kani::proof]
    fn conv_functions() {
        let a: [u32; 4] = kani::any();
        let r = conv::array2(Vector2::new(a[0], a[1]));
        assert!(r == [a[0], a[1]]);
        let r = conv::array3(Point3::new(a[0], a[1], a[2]));
        assert!(r == [a[0], a[1], a[2]]);
        let r = conv::array4(Vector4::new(a[0], a[1], a[2], a[3]));
        assert!(r == a);
        let m = Matrix2::new(a[0], a[1], a[2], a[3]);
        let r = conv::array2x2(m);
        assert!(r == [[a[0], a[1]], [a[2], a[3]]]);
    }
}

include!("c16_matrix_gen.rs");

mod matrix_ctor {
    use super::*;
    #[kani::proof]
    fn new_is_column_major_from_cols() {
        let a: [u32; 16] = kani::any();
        let m = Matrix4::new(a[0], a[1], a[2], a[3], a[4], a[5], a[6], a[7], a[8], a[9], a[10], a[11], a[12], a[13], a[14], a[15]);
        let c: usize = kani::any();
        let r: usize = kani::any();
        kani::assume(c < 4 && r < 4);
        assert!(m[c][r] == a[4 * c + r]);
        let m3 = Matrix3::new(a[0], a[1], a[2], a[3], a[4], a[5], a[6], a[7], a[8]);
        kani::assume(c < 3 && r < 3);
        assert!(m3[c][r] == a[3 * c + r]);
        let f = Matrix3::from_cols(Vector3::new(a[0], a[1], a[2]), Vector3::new(a[3], a[4], a[5]), Vector3::new(a[6], a[7], a[8]));
        assert!(f[c][r] == a[3 * c + r]);
        let m2 = Matrix2::new(a[0], a[1], a[2], a[3]);
        kani::assume(c < 2 && r < 2);
        assert!(m2[c][r] == a[2 * c + r]);
    }
}

mod quaternion {
    use super::*;
    #[kani::proof]
    fn order_is_x_y_z_then_scalar_new_takes_scalar_first() {
        let a: [u32; 4] = kani::any();
        let q = Quaternion::new(a[3], a[0], a[1], a[2]);
        assert!(q.v.x == a[0] && q.v.y == a[1] && q.v.z == a[2] && q.s == a[3]);
        let arr: [u32; 4] = q.into();
        assert!(arr == a);
        let q2: Quaternion<u32> = a.into();
        assert!(q2.v.x == a[0] && q2.v.y == a[1] && q2.v.z == a[2] && q2.s == a[3]);
        let t: (u32, u32, u32, u32) = q.into();
        assert!(t == (a[0], a[1], a[2], a[3]));
        let q3: Quaternion<u32> = t.into();
        assert!(q3.v.x == a[0] && q3.s == a[3]);
        let r: &[u32; 4] = q.as_ref();
        assert!(*r == a);
        let rt: &(u32, u32, u32, u32) = q.as_ref();
        assert!(*rt == (a[0], a[1], a[2], a[3]));
        let k: usize = kani::any();
        kani::assume(k < 4);
        assert!(q[k] == a[k]);
        let qr: &Quaternion<u32> = (&a).into();
        assert!(qr.s == a[3] && qr.v.z == a[2]);
        let s = Quaternion::from_sv(a[3], Vector3::new(a[0], a[1], a[2]));
        assert!(s.v.x == a[0] && s.s == a[3]);
    }
    #[kani::proof]
    fn writes_visible() {
        let a: [u32; 4] = kani::any();
        let mut q: Quaternion<u32> = a.into();
        let k: usize = kani::any();
        kani::assume(k < 4);
        let x: u32 = kani::any();
        let which: bool = kani::any();
        if which { q[k] = x; } else { let m: &mut [u32; 4] = q.as_mut(); m[k] = x; }
        let e = [q.v.x, q.v.y, q.v.z, q.s];
        assert!(e[k] == x);
        assert!((k == 0 || e[0] == a[0]) && (k == 1 || e[1] == a[1]) && (k == 2 || e[2] == a[2]) && (k == 3 || e[3] == a[3]));
    }
    #[kani::proof]
    fn range_indices() {
        let a: [u32; 4] = kani::any();
        let mut q: Quaternion<u32> = a.into();
        let lo: usize = kani::any();
        let hi: usize = kani::any();
        kani::assume(lo <= hi && hi <= 4);
        let k: usize = kani::any();
        kani::assume(k < 4);
        let s = &q[lo..hi];
        assert!(s.len() == hi - lo);
        if k >= lo && k < hi { assert!(s[k - lo] == a[k]); }
        let s = &q[..hi];
        if k < hi { assert!(s[k] == a[k]); }
        let s = &q[lo..];
        if k >= lo { assert!(s[k - lo] == a[k]); }
        let s = &q[..];
        assert!(s.len() == 4 && s[k] == a[k]);
        let x: u32 = kani::any();
        { let m = &mut q[lo..]; if k >= lo { m[k - lo] = x; } }
        let e = [q.v.x, q.v.y, q.v.z, q.s];
        if k >= lo { assert!(e[k] == x); }
    }
    #[kani::proof]
    #[kani::should_panic]
    fn index_out_of_range_panics() {
        let q: Quaternion<u32> = Quaternion::new(kani::any(), kani::any(), kani::any(), kani::any());
        let k: usize = kani::any();
        kani::assume(k >= 4);
        let _ = q[k];
    }
}

mod mint_conv {
    use super::*;
    #[kani::proof]
    fn vectors_points() {
        let a: [u32; 4] = kani::any();
        let m: mint::Vector3<u32> = Vector3::new(a[0], a[1], a[2]).into();
        assert!(m.x == a[0] && m.y == a[1] && m.z == a[2]);
        let v: Vector3<u32> = m.into();
        assert!(v.x == a[0] && v.y == a[1] && v.z == a[2]);
        let m4: mint::Vector4<u32> = Vector4::new(a[0], a[1], a[2], a[3]).into();
        assert!(m4.x == a[0] && m4.y == a[1] && m4.z == a[2] && m4.w == a[3]);
        let m2: mint::Vector2<u32> = Vector2::new(a[0], a[1]).into();
        assert!(m2.x == a[0] && m2.y == a[1]);
        let p: mint::Point3<u32> = Point3::new(a[0], a[1], a[2]).into();
        assert!(p.x == a[0] && p.y == a[1] && p.z == a[2]);
        let pb: Point3<u32> = p.into();
        assert!(pb.x == a[0] && pb.y == a[1] && pb.z == a[2]);
        let p2: mint::Point2<u32> = Point2::new(a[0], a[1]).into();
        assert!(p2.x == a[0] && p2.y == a[1]);
    }
    // The mint type of a matrix is reached through `IntoMint::MintType`, and its *meaning* (which mint field is which
    // column / row) through `ColMajor`, implemented for mint's column- and row-matrix types alike: a change of the mint
    // type or of the field mapping then fails an assertion with a counterexample instead of failing to compile.
    trait ColMajor<const N: usize> { fn at(&self, c: usize, r: usize) -> u32; fn build(f: &dyn Fn(usize, usize) -> u32) -> Self; }
    macro_rules! col_major {
        ($N:expr, $Col:ident, $Row:ident, $V:ident, [$($f:ident : $i:expr),+]) => {
            impl ColMajor<$N> for mint::$Col<u32> {
                fn at(&self, c: usize, r: usize) -> u32 { let col: [u32; $N] = match c { $($i => self.$f.into(),)+ _ => panic!() }; col[r] }
                fn build(f: &dyn Fn(usize, usize) -> u32) -> Self { mint::$Col { $($f: { let mut a = [0u32; $N]; for r in 0..$N { a[r] = f($i, r); } a.into() }),+ } }
            }
            impl ColMajor<$N> for mint::$Row<u32> {
                fn at(&self, c: usize, r: usize) -> u32 { let row: [u32; $N] = match r { $($i => self.$f.into(),)+ _ => panic!() }; row[c] }
                fn build(f: &dyn Fn(usize, usize) -> u32) -> Self { mint::$Row { $($f: { let mut a = [0u32; $N]; for c in 0..$N { a[c] = f(c, $i); } a.into() }),+ } }
            }
        };
    }
    col_major!(2, ColumnMatrix2, RowMatrix2, Vector2, [x: 0, y: 1]);
    col_major!(3, ColumnMatrix3, RowMatrix3, Vector3, [x: 0, y: 1, z: 2]);
    col_major!(4, ColumnMatrix4, RowMatrix4, Vector4, [x: 0, y: 1, z: 2, w: 3]);
    fn same_type<A: 'static, B: 'static>() -> bool { core::any::TypeId::of::<A>() == core::any::TypeId::of::<B>() }

    #[kani::proof]
    #[kani::unwind(5)]
    fn matrix3_quaternion() {
        let a: [u32; 9] = kani::any();
        let m = Matrix3::new(a[0], a[1], a[2], a[3], a[4], a[5], a[6], a[7], a[8]);
        type M = <Matrix3<u32> as mint::IntoMint>::MintType;
        assert!(same_type::<M, mint::ColumnMatrix3<u32>>());
        let mm: M = m.into();
        let (c, r): (usize, usize) = (kani::any(), kani::any());
        kani::assume(c < 3 && r < 3);
        assert!(ColMajor::<3>::at(&mm, c, r) == a[3 * c + r]);
        let src: M = ColMajor::<3>::build(&|c, r| a[3 * c + r]);
        let back: Matrix3<u32> = src.into();
        assert!(back[c][r] == a[3 * c + r]);
        let q = Quaternion::new(a[3], a[0], a[1], a[2]);
        let mq: mint::Quaternion<u32> = q.into();
        assert!(mq.s == a[3] && mq.v.x == a[0] && mq.v.y == a[1] && mq.v.z == a[2]);
        let qb: Quaternion<u32> = mq.into();
        assert!(qb.s == a[3] && qb.v.x == a[0] && qb.v.y == a[1] && qb.v.z == a[2]);
    }
    #[kani::proof]
    #[kani::unwind(6)]
    fn matrix2_matrix4() {
        let a: [u32; 16] = kani::any();
        let m = Matrix2::new(a[0], a[1], a[2], a[3]);
        type M2 = <Matrix2<u32> as mint::IntoMint>::MintType;
        type M4 = <Matrix4<u32> as mint::IntoMint>::MintType;
        assert!(same_type::<M2, mint::ColumnMatrix2<u32>>());
        assert!(same_type::<M4, mint::ColumnMatrix4<u32>>());
        let mm: M2 = m.into();
        let (c, r): (usize, usize) = (kani::any(), kani::any());
        kani::assume(c < 4 && r < 4);
        if c < 2 && r < 2 {
            assert!(ColMajor::<2>::at(&mm, c, r) == a[2 * c + r]);
            let src: M2 = ColMajor::<2>::build(&|c, r| a[2 * c + r]);
            let back: Matrix2<u32> = src.into();
            assert!(back[c][r] == a[2 * c + r]);
        }
        let m4 = Matrix4::new(a[0], a[1], a[2], a[3], a[4], a[5], a[6], a[7], a[8], a[9], a[10], a[11], a[12], a[13], a[14], a[15]);
        let mm4: M4 = m4.into();
        assert!(ColMajor::<4>::at(&mm4, c, r) == a[4 * c + r]);
        let src4: M4 = ColMajor::<4>::build(&|c, r| a[4 * c + r]);
        let back4: Matrix4<u32> = src4.into();
        assert!(back4[c][r] == a[4 * c + r]);
    }
}
