"""Decomposed transforms (C08): contracts at the three instantiations of rule R4, conversion to matrices, laws."""
import re
from common import *
from sym import R, B, Struct, SpecLib, Law, CertLaw, s_eq, lift
from c_vector import V, XYZW, comps
from c_point import P
from c_matrix import M, cols, at
from c_quat import Q

INST = {
    'q':  dict(P='Point3<Sc>', R='Quaternion<Sc>', V='Vector3<Sc>', n=3,
               rotv=lambda r, v: 'q_rotv(%s, %s)' % (r, v), rmul=lambda a, b: 'q_mul(%s, %s)' % (a, b),
               rone='q_one()', rinv=lambda r: 'q_invert(%s)' % r, rotm=lambda r: 'm3_from_q(%s)' % r, inv_is='eq'),
    'b3': dict(P='Point3<Sc>', R='Basis3<Sc>', V='Vector3<Sc>', n=3,
               rotv=lambda r, v: 'm3_mulv(%s.mat, %s)' % (r, v), rmul=lambda a, b: '(Basis3 { mat: m3_mul(%s.mat, %s.mat) })' % (a, b),
               rone='(Basis3 { mat: m3_identity() })', rinv=None, rotm=lambda r: '%s.mat' % r, inv_is='rel'),
    'b2': dict(P='Point2<Sc>', R='Basis2<Sc>', V='Vector2<Sc>', n=2,
               rotv=lambda r, v: 'm2_mulv(%s.mat, %s)' % (r, v), rmul=lambda a, b: '(Basis2 { mat: m2_mul(%s.mat, %s.mat) })' % (a, b),
               rone='(Basis2 { mat: m2_identity() })', rinv=None, rotm=lambda r: '%s.mat' % r, inv_is='rel'),
}


def text_specs(k):
    I = INST[k]
    n = I['n']
    D = 'Decomposed<%s, %s>' % (I['V'], I['R'])
    rotv, rmul = I['rotv'], I['rmul']
    t = '''
pub open spec fn dec_apply_vec(d: {D}, v: {V}) -> {V} {{ {rotv_v} }}
pub open spec fn dec_apply_pt(d: {D}, p: {P}) -> {P} {{ p{n}_addv(p{n}_from_vec({rotv_p}), d.disp) }}
pub open spec fn dec_concat(a: {D}, b: {D}) -> {D} {{
    Decomposed {{ scale: s_mul(a.scale, b.scale), rot: {rmul}, disp: v{n}_add({rotv_c}, a.disp) }}
}}
pub open spec fn dec_one() -> {D} {{ Decomposed {{ scale: s_one(), rot: {rone}, disp: v{n}_zero() }} }}
'''.format(D=D, V=I['V'], P=I['P'], n=n, rotv_v=rotv('d.rot', 'v%d_scale(v, d.scale)' % n),
           rotv_p=rotv('d.rot', 'p%d_to_vec(p%d_scale(p, d.scale))' % (n, n)), rmul=rmul('a.rot', 'b.rot'),
           rotv_c=rotv('a.rot', 'v%d_scale(b.disp, a.scale)' % n), rone=I['rone'])
    m = n + 1
    if n == 3:
        t += '''
pub open spec fn dec_to_matrix(d: {D}) -> Matrix4<Sc> {{
    let m = m3_scale({rotm}, d.scale);
    Matrix4 {{ x: v4_new(m.x.x, m.x.y, m.x.z, s_zero()), y: v4_new(m.y.x, m.y.y, m.y.z, s_zero()), z: v4_new(m.z.x, m.z.y, m.z.z, s_zero()),
              w: v4_new(d.disp.x, d.disp.y, d.disp.z, s_one()) }}
}}
'''.format(D=D, rotm=I['rotm']('d.rot'))
    else:
        t += '''
pub open spec fn dec_to_matrix(d: {D}) -> Matrix3<Sc> {{
    let m = m2_scale({rotm}, d.scale);
    Matrix3 {{ x: v3_new(m.x.x, m.x.y, s_zero()), y: v3_new(m.y.x, m.y.y, s_zero()), z: v3_new(d.disp.x, d.disp.y, s_one()) }}
}}
'''.format(D=D, rotm=I['rotm']('d.rot'))
    return t


def contracts(k):
    I = INST[k]
    n = I['n']
    rotv = I['rotv']

    def fn(unit, im, f):
        if im is None:
            return None
        st, self_ref = base_type(im.selfty)
        tn = trait_name(im.trait)
        name = f.name
        if st == 'Decomposed':
            if tn == 'Clone':
                return Contract(ensures=['ret == *self'])
            if tn == 'One' and name == 'one':
                return Contract(ensures=['ret == dec_one()'])
            if tn == 'Mul' and name == 'mul':
                return Contract(ensures=['ret == dec_concat(self, $1)'], spec='dec_concat(self, rhs)')
            if tn == 'Transform':
                inv = ['ret.is_none() <==> s_ulps_eq_default(self.scale, s_zero())']
                if I['inv_is'] == 'eq':
                    rinv = I['rinv']('self.rot')
                    inv_rot = ['ret.is_some() ==> ret.unwrap().rot == %s' % rinv]
                    rr = rinv
                else:
                    mp = 'm%d' % n
                    inv_rot = ['ret.is_some() ==> %s_mul(self.rot.mat, ret.unwrap().rot.mat) == %s_identity() && %s_mul(ret.unwrap().rot.mat, self.rot.mat) == %s_identity()' % (mp, mp, mp, mp)]
                    rr = 'ret.unwrap().rot'
                d = {
                    'transform_vector': Contract(ensures=['ret == dec_apply_vec(*self, $1)']),
                    'transform_point': Contract(ensures=['ret == dec_apply_pt(*self, $1)']),
                    'concat': Contract(ensures=['ret == dec_concat(*self, *$1)']),
                    'concat_self': Contract(ensures=['*final(self) == dec_concat(*old(self), *$1)']),
                    'inverse_transform': Contract(ensures=inv + inv_rot + [
                        'ret.is_some() ==> ret.unwrap().scale == s_div(s_one(), self.scale)',
                        'ret.is_some() ==> ret.unwrap().disp == v%d_scale(%s, s_neg(s_div(s_one(), self.scale)))' % (n, rotv(rr, 'self.disp'))]),
                }
                if I['inv_is'] == 'eq':
                    d['inverse_transform_vector'] = Contract(ensures=[
                        'ret.is_none() <==> s_ulps_eq_default(self.scale, s_zero())',
                        'ret.is_some() ==> ret.unwrap() == %s' % rotv(I['rinv']('self.rot'), 'v%d_divs($1, self.scale)' % n)])
                else:
                    mp = 'm%d' % n
                    hint = ('assert forall|nn: Matrix{n}<Sc>, w: Vector{n}<Sc>| {mp}_mul(self.rot.mat, nn) == {mp}_identity() implies '
                            '#[trigger] {mp}_mulv(self.rot.mat, {mp}_mulv(nn, w)) == w by {{ law_{mp}_action(self.rot.mat, nn, w, w, s_zero()); }}').format(n=n, mp=mp)
                    d['inverse_transform_vector'] = Contract(ensures=[
                        'ret.is_none() <==> s_ulps_eq_default(self.scale, s_zero())',
                        'ret.is_some() ==> %s == v%d_divs($1, self.scale)' % (rotv('self.rot', 'ret.unwrap()'), n)], tail=hint)
                return d.get(name)
        if tn == 'From' and name == 'from' and re.match(r'Decomposed<', trait_args(im.trait).strip()):
            return Contract(ensures=['ret == dec_to_matrix($0)'], spec='dec_to_matrix(v)')
        return None
    return fn


DEC = r"Decomposed<P::Diff, R>"


def select(unit, k):
    n = INST[k]['n']
    unit.select(
        Sel('Clone', r'Decomposed<V, R>'), Sel('Copy', r'Decomposed<V, R>'),
        Sel('One', DEC), Sel('Mul', DEC),
        Sel('Transform', DEC, ['transform_vector', 'transform_point', 'concat', 'concat_self', 'inverse_transform', 'inverse_transform_vector']),
        Sel('From', r'Matrix%d<S>' % (n + 1), trait_args=r'Decomposed<Vector%d<S>, R>' % n),
    )


# ---------------------------------------------------------------------------
# laws (matrix-backed instantiations b3, b2; the quaternion instantiation reduces to b3 through M(q): C05 laws)

def mk_dec(k):
    from c_rot import B2, B3
    n = INST[k]['n']
    Bn = {2: B2, 3: B3}[n]
    return type('Dec' + k, (Struct,), {'TYPE': 'Decomposed<Vector%d<Sc>, Basis%d<Sc>>' % (n, n),
                                       'FIELDS': [('scale', R), ('rot', Bn), ('disp', V[n])]})


def laws(F, k):
    from c_rot import B2, B3
    n = INST[k]['n']
    if k == 'q':
        return []
    D = mk_dec(k)
    Bn = {2: B2, 3: B3}[n]
    Vn, Pn, Mn = V[n], P[n], M[n]
    g = lambda s_: F['m%d_%s' % (n, s_)]
    gv = lambda s_: F['v%d_%s' % (n, s_)]
    gp = lambda s_: F['p%d_%s' % (n, s_)]

    def call(name, res, *args):
        from sym import with_spec
        return with_spec(res, '%s(%s)' % (name, ', '.join(a.spec for a in args)))

    def apply_vec(d, v):
        return call('dec_apply_vec', g('mulv')(d.rot.mat, gv('scale')(v, d.scale)), d, v)

    def apply_pt(d, p):
        return call('dec_apply_pt', gp('addv')(gp('from_vec')(g('mulv')(d.rot.mat, gp('to_vec')(gp('scale')(p, d.scale)))), d.disp), d, p)

    def concat(a, b):
        return call('dec_concat', D(a.scale * b.scale, Bn(g('mul')(a.rot.mat, b.rot.mat)),
                                    gv('add')(g('mulv')(a.rot.mat, gv('scale')(b.disp, a.scale)), a.disp)), a, b)

    def one():
        return call('dec_one', D(R.lit(1), Bn(g('identity')()), gv('zero')()))

    out = []
    L = Law('dec%s_compose' % k, [('a', D), ('b', D), ('p', Pn), ('v', Vn)])
    a, b, p, v = L.vars
    L.eq(apply_pt(concat(a, b), p), apply_pt(a, apply_pt(b, p)))
    L.eq(apply_vec(concat(a, b), v), apply_vec(a, apply_vec(b, v)))
    L.eq(apply_pt(one(), p), p)
    L.eq(apply_vec(one(), v), v)
    out.append(L)
    # conversion to a matrix commutes with applying and composing
    m = n + 1
    Mm, Vm = M[m], V[m]

    def to_matrix(d):
        sm = g('scale')(d.rot.mat, d.scale)
        colsm = [getattr(sm, f) for f, _ in sm.FIELDS]
        Z, O = R.lit(0), R.lit(1)
        from c_vector import comps as cc
        return call('dec_to_matrix', Mm(*[Vm(*(cc(c) + [Z])) for c in colsm], Vm(*(cc(d.disp) + [O]))), d)
    L = Law('dec%s_matrix' % k, [('a', D), ('b', D), ('v', Vn)])
    a, b, v = L.vars
    L.eq(to_matrix(concat(a, b)), F['m%d_mul' % m](to_matrix(a), to_matrix(b)))
    tv = F['m4_transform_vector3'] if n == 3 else F['m3_transform_vector2']
    L.eq(tv(to_matrix(a), v), apply_vec(a, v))
    out.append(L)
    L = CertLaw('dec%s_matrix_pt' % k, [('a', D), ('p', Pn)])
    a, p = L.vars
    tp = F['m4_transform_point3'] if n == 3 else F['m3_transform_point2']
    L.eq(tp(to_matrix(a), p), apply_pt(a, p))
    out.append(L)
    # inverse_transform undoes the transform: for any `ri` with rot * ri = ri * rot = 1 (what the contract of
    # Rotation::invert / inverse_transform guarantees) and scale != 0, the transform the contract pins down
    # (scale 1/s, rotation ri, displacement -(ri disp)/s) is a two-sided inverse on points and on vectors
    L = CertLaw('dec%s_undo' % k, [('a', D), ('ri', Mn), ('p', Pn), ('v', Vn)])
    a, ri, p, v = L.vars
    for x, y in zip(g('mul')(a.rot.mat, ri).leaves(), g('identity')().leaves()):
        L.require_eq(x, y)
    for x, y in zip(g('mul')(ri, a.rot.mat).leaves(), g('identity')().leaves()):
        L.require_eq(x, y)
    L.require_nonzero(a.scale)
    rs = R.lit(1) / a.scale
    inv = D(rs, Bn(ri), gv('scale')(g('mulv')(ri, a.disp), -rs))
    L.eq(apply_pt(inv, apply_pt(a, p)), p)
    L.eq(apply_pt(a, apply_pt(inv, p)), p)
    L.eq(apply_vec(inv, apply_vec(a, v)), v)
    L.eq(apply_vec(a, apply_vec(inv, v)), v)
    out.append(L)
    # ... and composing with it gives the identity transform (both orders)
    L = CertLaw('dec%s_concat_inverse' % k, [('a', D), ('ri', Mn)])
    a, ri = L.vars
    for x, y in zip(g('mul')(a.rot.mat, ri).leaves(), g('identity')().leaves()):
        L.require_eq(x, y)
    for x, y in zip(g('mul')(ri, a.rot.mat).leaves(), g('identity')().leaves()):
        L.require_eq(x, y)
    L.require_nonzero(a.scale)
    rs = R.lit(1) / a.scale
    inv = D(rs, Bn(ri), gv('scale')(g('mulv')(ri, a.disp), -rs))
    c1, c2, o = concat(a, inv), concat(inv, a), one()
    for u_, v_ in ((c1, o), (c2, o)):
        L.eq(u_.scale, v_.scale)
        L.eq(u_.rot.mat, v_.rot.mat)
        L.eq(u_.disp, v_.disp)
    out.append(L)
    return out


def handwritten_matrix_inverse(k):
    """the matrix of the inverse transform is the inverse matrix (Basis-backed instantiations), composed from concat_inverse and matrix"""
    n = INST[k]['n']
    m = n + 1
    return '''
pub open spec fn decb_inverse_with(a: Decomposed<Vector{n}<Sc>, Basis{n}<Sc>>, ri: Matrix{n}<Sc>) -> Decomposed<Vector{n}<Sc>, Basis{n}<Sc>> {{
    Decomposed {{ scale: s_div(s_one(), a.scale), rot: (Basis{n} {{ mat: ri }}), disp: v{n}_scale(m{n}_mulv(ri, a.disp), s_neg(s_div(s_one(), a.scale))) }}
}}
pub proof fn law_dec{k}_matrix_inverse(a: Decomposed<Vector{n}<Sc>, Basis{n}<Sc>>, ri: Matrix{n}<Sc>)
    requires m{n}_mul(a.rot.mat, ri) == m{n}_identity(), m{n}_mul(ri, a.rot.mat) == m{n}_identity(), a.scale@ != 0real
    ensures dec_concat(a, decb_inverse_with(a, ri)) == dec_one(),
        dec_concat(decb_inverse_with(a, ri), a) == dec_one(),
        m{m}_mul(dec_to_matrix(a), dec_to_matrix(decb_inverse_with(a, ri))) == m{m}_identity(),
        m{m}_mul(dec_to_matrix(decb_inverse_with(a, ri)), dec_to_matrix(a)) == m{m}_identity(),
{{
    let inv = decb_inverse_with(a, ri);
    law_dec{k}_concat_inverse(a, ri);
    let (c1, c2, o) = (dec_concat(a, inv), dec_concat(inv, a), dec_one());
    assert(c1.rot == o.rot);
    assert(c2.rot == o.rot);
    assert(c1 == o);
    assert(c2 == o);
    law_dec{k}_matrix(a, inv, a.disp);
    law_dec{k}_matrix(inv, a, a.disp);
    assert(dec_to_matrix(o) == m{m}_identity());
}}
'''.format(k=k, n=n, m=m)


def laws_q(F):
    """Quaternion-backed Decomposed: composition / identity / matrix-commutation laws by REDUCTION to the Basis3 instantiation
    through M(q) = m3_from_q(q): the b3 spec functions are included under the prefix `decb_`, the b3 laws (proved in unit
    C08b3) and the C05 laws (M(q) v = q v for all q; M(pq) = M(p) M(q) for unit p, q) are imported as assumed contracts, and the
    bridge below is proved here (pass A only, no polynomial work)."""
    from c_conv import laws_c05
    out = [text_specs('b3').replace('dec_', 'decb_')]
    for L in laws_c05(F):
        if L.name in ('m_from_q_action', 'm_from_q_compose'):
            out.append(L.render_assumed('C05'))
    for L in laws(F, 'b3'):
        out.append(L.render_assumed('C08b3').replace('dec_', 'decb_'))
    out.append('''
pub open spec fn dec_as_b3(d: Decomposed<Vector3<Sc>, Quaternion<Sc>>) -> Decomposed<Vector3<Sc>, Basis3<Sc>> {
    Decomposed { scale: d.scale, rot: Basis3 { mat: m3_from_q(d.rot) }, disp: d.disp }
}
pub open spec fn dec_unit(d: Decomposed<Vector3<Sc>, Quaternion<Sc>>) -> bool { q_magnitude2(d.rot)@ == 1real }
// applying, composing, the identity and the conversion to a matrix all commute with d -> dec_as_b3(d)
pub proof fn law_decq_bridge(a: Decomposed<Vector3<Sc>, Quaternion<Sc>>, b: Decomposed<Vector3<Sc>, Quaternion<Sc>>, p: Point3<Sc>, v: Vector3<Sc>)
    requires dec_unit(a), dec_unit(b)
    ensures dec_apply_vec(a, v) == decb_apply_vec(dec_as_b3(a), v),
        dec_apply_pt(a, p) == decb_apply_pt(dec_as_b3(a), p),
        dec_as_b3(dec_concat(a, b)) == decb_concat(dec_as_b3(a), dec_as_b3(b)),
        dec_as_b3(dec_one()) == decb_one(),
        dec_to_matrix(a) == decb_to_matrix(dec_as_b3(a)),
        dec_unit(dec_concat(a, b)),
{
    law_m_from_q_action(a.rot, v3_scale(v, a.scale));
    law_m_from_q_action(a.rot, p3_to_vec(p3_scale(p, a.scale)));
    law_m_from_q_action(a.rot, v3_scale(b.disp, a.scale));
    law_m_from_q_compose(a.rot, b.rot);
    law_q_ring(a.rot, b.rot, b.rot);
    assert(q_magnitude2(q_mul(a.rot, b.rot))@ == q_magnitude2(a.rot)@ * q_magnitude2(b.rot)@);
    assert(q_magnitude2(a.rot)@ * q_magnitude2(b.rot)@ == 1real) by(nonlinear_arith) requires q_magnitude2(a.rot)@ == 1real, q_magnitude2(b.rot)@ == 1real;
    assert(m3_from_q(q_one()) == m3_identity());
}
// the statement of C08 for the quaternion instantiation (unit rotations)
pub proof fn law_decq_compose(a: Decomposed<Vector3<Sc>, Quaternion<Sc>>, b: Decomposed<Vector3<Sc>, Quaternion<Sc>>, p: Point3<Sc>, v: Vector3<Sc>)
    requires dec_unit(a), dec_unit(b)
    ensures dec_apply_pt(dec_concat(a, b), p) == dec_apply_pt(a, dec_apply_pt(b, p)),
        dec_apply_vec(dec_concat(a, b), v) == dec_apply_vec(a, dec_apply_vec(b, v)),
        dec_apply_pt(dec_one(), p) == p,
        dec_apply_vec(dec_one(), v) == v,
        dec_to_matrix(dec_concat(a, b)) == m4_mul(dec_to_matrix(a), dec_to_matrix(b)),
        m4_transform_vector3(dec_to_matrix(a), v) == dec_apply_vec(a, v),
        m4_transform_point3(dec_to_matrix(a), p) == dec_apply_pt(a, p),
{
    let (ab, bb) = (dec_as_b3(a), dec_as_b3(b));
    let one = dec_one();
    assert(dec_unit(one)) by { law_q_ring(q_one(), q_one(), q_one()); }
    law_decq_bridge(a, b, p, v);
    law_decq_bridge(b, a, p, v);
    law_decq_bridge(dec_concat(a, b), one, p, v);
    law_decq_bridge(one, one, p, v);
    law_decq_bridge(a, b, dec_apply_pt(b, p), dec_apply_vec(b, v));
    law_decb3_compose(ab, bb, p, v);
    law_decb3_matrix(ab, bb, v);
    law_decb3_matrix_pt(ab, p);
}

// inverse_transform undoes the transform (unit rotation, scale != 0): the transform its contract pins down is a two-sided inverse
pub open spec fn dec_inverse(a: Decomposed<Vector3<Sc>, Quaternion<Sc>>) -> Decomposed<Vector3<Sc>, Quaternion<Sc>> {
    Decomposed { scale: s_div(s_one(), a.scale), rot: q_invert(a.rot), disp: v3_scale(q_rotv(q_invert(a.rot), a.disp), s_neg(s_div(s_one(), a.scale))) }
}
pub proof fn law_decq_undo(a: Decomposed<Vector3<Sc>, Quaternion<Sc>>, p: Point3<Sc>, v: Vector3<Sc>)
    requires dec_unit(a), a.scale@ != 0real
    ensures dec_apply_pt(dec_inverse(a), dec_apply_pt(a, p)) == p,
        dec_apply_pt(a, dec_apply_pt(dec_inverse(a), p)) == p,
        dec_apply_vec(dec_inverse(a), dec_apply_vec(a, v)) == v,
        dec_apply_vec(a, dec_apply_vec(dec_inverse(a), v)) == v,
        dec_unit(dec_inverse(a)),
{
    let q = a.rot;
    let qi = q_invert(q);
    let inv = dec_inverse(a);
    law_q_ring(q, qi, qi);
    assert(q_magnitude2(q)@ == q.s@ * q.s@ + q.v.x@ * q.v.x@ + q.v.y@ * q.v.y@ + q.v.z@ * q.v.z@);
    law_q_inverse(q);
    law_q_ring(q_one(), q_one(), q_one());
    assert(q_magnitude2(q_one())@ == 1real);
    assert(q_magnitude2(q)@ * q_magnitude2(qi)@ == 1real);
    assert(q_magnitude2(qi)@ == 1real) by(nonlinear_arith) requires q_magnitude2(q)@ * q_magnitude2(qi)@ == 1real, q_magnitude2(q)@ == 1real;
    law_m_from_q_compose(q, qi);
    law_m_from_q_compose(qi, q);
    assert(m3_from_q(q_one()) == m3_identity());
    let (m, ri) = (m3_from_q(q), m3_from_q(qi));
    assert(m3_mul(m, ri) == m3_identity());
    assert(m3_mul(ri, m) == m3_identity());
    law_m_from_q_action(qi, a.disp);
    law_decq_bridge(a, inv, p, v);
    law_decq_bridge(inv, a, p, v);
    law_decq_bridge(a, inv, dec_apply_pt(inv, p), dec_apply_vec(inv, v));
    law_decq_bridge(inv, a, dec_apply_pt(a, p), dec_apply_vec(a, v));
    assert(dec_as_b3(inv) == (Decomposed::<Vector3<Sc>, Basis3<Sc>> { scale: s_div(s_one(), a.scale), rot: (Basis3 { mat: ri }), disp: v3_scale(m3_mulv(ri, a.disp), s_neg(s_div(s_one(), a.scale))) }));
    law_decb3_undo(dec_as_b3(a), ri, p, v);
}
''')
    import os
    out.append(open(os.path.join(os.path.dirname(os.path.abspath(__file__)), 'handwritten', 'c08_q_laws.rs')).read())
    return out
