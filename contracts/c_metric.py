"""Magnitude, distance, normalisation, angle, projection (C11; used by C09, C14, C15)."""
import re
from common import *
from sym import R, B, Struct, SpecLib, Law, CertLaw, s_eq, lift
from c_vector import V, XYZW, comps
from c_point import P
from c_quat import Q
from c_angle import Rad, fn1, fn2

KINDS = {'Vector1': ('v1', 'Vector1<Sc>'), 'Vector2': ('v2', 'Vector2<Sc>'), 'Vector3': ('v3', 'Vector3<Sc>'),
         'Vector4': ('v4', 'Vector4<Sc>'), 'Quaternion': ('q', 'Quaternion<Sc>')}


def text_specs():
    out = []
    for st, (p, T) in KINDS.items():
        out.append('''
pub open spec fn {p}_magnitude(a: {T}) -> Sc {{ sc(r_sqrt({p}_dot(a, a)@)) }}
pub open spec fn {p}_normalize_to(a: {T}, m: Sc) -> {T} {{ {p}_scale(a, s_div(m, {p}_magnitude(a))) }}
pub open spec fn {p}_normalize(a: {T}) -> {T} {{ {p}_normalize_to(a, s_one()) }}
pub open spec fn {p}_project_on(a: {T}, b: {T}) -> {T} {{ {p}_scale(b, s_div({p}_dot(a, b), {p}_dot(b, b))) }}
pub open spec fn {p}_angle_acos(a: {T}, b: {T}) -> Rad<Sc> {{ rad_acos(s_div({p}_dot(a, b), s_mul({p}_magnitude(a), {p}_magnitude(b)))) }}
'''.format(p=p, T=T))
    out.append('''
pub open spec fn v2_angle(a: Vector2<Sc>, b: Vector2<Sc>) -> Rad<Sc> { rad_atan2(v2_perp_dot(a, b), v2_dot(a, b)) }
pub open spec fn v3_angle(a: Vector3<Sc>, b: Vector3<Sc>) -> Rad<Sc> { rad_atan2(v3_magnitude(v3_cross(a, b)), v3_dot(a, b)) }
''')
    for n in (1, 2, 3):
        out.append('pub open spec fn p%d_distance(a: Point%d<Sc>, b: Point%d<Sc>) -> Sc { sc(r_sqrt(p%d_distance2(a, b)@)) }\n' % (n, n, n, n))
    return ''.join(out)


def contracts(unit, im, f):
    if im is None:
        return None
    st, self_ref = base_type(im.selfty)
    tn = trait_name(im.trait)
    name = f.name
    if st in KINDS and tn == 'InnerSpace':
        p = KINDS[st][0]
        ang = {'Vector2': 'v2_angle(self, $1)', 'Vector3': 'v3_angle(self, $1)'}.get(st, '%s_angle_acos(self, $1)' % p)
        d = {'magnitude': 'ret == %s_magnitude(self)' % p, 'normalize': 'ret == %s_normalize(self)' % p,
             'normalize_to': 'ret == %s_normalize_to(self, $1)' % p, 'project_on': 'ret == %s_project_on(self, $1)' % p,
             'angle': 'ret == ' + ang, 'is_perpendicular': 'ret == s_ulps_eq_default(%s_dot(self, $1), s_zero())' % p}
        if name in d:
            return Contract(ensures=[d[name]])
    if tn == 'MetricSpace' and name == 'distance':
        if st in KINDS:
            p = KINDS[st][0]
            d2 = {'q': 'q_magnitude2(q_sub($1, self))'}.get(p, '%s_dot(%s_sub($1, self), %s_sub($1, self))' % (p, p, p))
            return Contract(ensures=['ret@ == r_sqrt(%s@)' % d2])
        if re.fullmatch(r'Point[1-3]', st):
            return Contract(ensures=['ret == p%s_distance(self, $1)' % st[-1]])
    return None


def select(unit):
    from c_vector import VEC
    from c_quat import QT
    from c_point import PT
    unit.select(
        Sel('InnerSpace', VEC, ['magnitude', 'normalize', 'normalize_to', 'project_on', 'angle', 'is_perpendicular']),
        Sel('InnerSpace', QT, ['magnitude', 'normalize', 'normalize_to', 'project_on', 'angle', 'is_perpendicular']),
        Sel('MetricSpace', VEC, ['distance']), Sel('MetricSpace', QT, ['distance']), Sel('MetricSpace', PT, ['distance']),
    )


def laws(F):
    out = []
    for n in (1, 2, 3, 4):
        T = V[n]
        p = 'v%d' % n
        dot, scale, sub = F[p + '_dot'], F[p + '_scale'], F[p + '_sub']
        # normalize: with m = sqrt(v.v) (m*m == v.v, m != 0) the result has unit length and v = m * normalize(v)
        L = CertLaw('%s_normalize' % p, [('v', T), ('m', R), ('k', R)])
        v, m, k = L.vars
        L.require_eq(m * m, dot(v, v))
        nv = scale(v, k / m)
        L.eq(dot(nv, nv), k * k)
        L.eq(scale(nv, m), scale(v, k))
        out.append(L)
        # projection: parallel to b, residual orthogonal to b
        L = CertLaw('%s_project' % p, [('a', T), ('b', T)])
        a, b = L.vars
        pr = scale(b, dot(a, b) / dot(b, b))
        L.eq(dot(sub(a, pr), b), R.lit(0))
        out.append(L)
        # distance symmetric: (u - v).(u - v) == (v - u).(v - u)
        L = Law('%s_distance_sym' % p, [('u', T), ('v', T)])
        u, v = L.vars
        L.eq(dot(sub(u, v), sub(u, v)), dot(sub(v, u), sub(v, u)))
        out.append(L)
    # Lagrange / Cauchy-Schwarz in the forms the angle laws need
    L = Law('v3_cs', [('u', V[3]), ('v', V[3])])
    u, v = L.vars
    cr = F['v3_cross'](u, v)
    L.eq(F['v3_dot'](cr, cr) + F['v3_dot'](u, v) * F['v3_dot'](u, v), F['v3_dot'](u, u) * F['v3_dot'](v, v))
    out.append(L)
    L = Law('v2_cs', [('u', V[2]), ('v', V[2])])
    u, v = L.vars
    pd = F['v2_perp_dot'](u, v)
    L.eq(pd * pd + F['v2_dot'](u, v) * F['v2_dot'](u, v), F['v2_dot'](u, u) * F['v2_dot'](v, v))
    out.append(L)
    return out


def cs_laws(F):
    """Cauchy-Schwarz as an identity: (u.u)(v.v) - (u.v)^2 == sum over i<j of (u_i v_j - u_j v_i)^2, for the types whose
    angle() is the generic acos form (Vector1, Vector4, Quaternion); returns (laws, handwritten text using them)"""
    from c_quat import Q
    laws, text = [], ''
    for key, T, dotf, leaves in (('v1', V[1], 'v1_dot', lambda a: [a.x]), ('v4', V[4], 'v4_dot', lambda a: [a.x, a.y, a.z, a.w]),
                                 ('q', Q, 'q_dot', lambda a: [a.s, a.v.x, a.v.y, a.v.z])):
        L = Law('%s_cs' % key, [('u', T), ('v', T)])
        u, v = L.vars
        lu, lv = leaves(u), leaves(v)
        acc = None
        calls = []
        for i in range(len(lu)):
            for j in range(i + 1, len(lu)):
                t = lu[i] * lv[j] - lu[j] * lv[i]
                acc = t * t if acc is None else acc + t * t
                calls.append('lemma_sq_nonneg(%s);' % L.to_views(t.flat) if hasattr(L, 'to_views') else '')
        d = F[dotf]
        if acc is None:
            L.eq(d(u, u) * d(v, v) - d(u, v) * d(u, v), R.lit(0))
        else:
            L.eq(d(u, u) * d(v, v) - d(u, v) * d(u, v), acc)
        laws.append(L)
        atoms = dict(L.atoms())
        import re as _re
        def views(flat):
            return _re.sub(r'[A-Za-z_][A-Za-z0-9_]*', lambda mo: atoms.get(mo.group(0), mo.group(0)), flat)
        sq = []
        for i in range(len(lu)):
            for j in range(i + 1, len(lu)):
                t = lu[i] * lv[j] - lu[j] * lv[i]
                sq.append('lemma_sq_nonneg(%s);' % views(t.flat))
        nn_u = ' '.join('lemma_sq_nonneg(%s);' % views(x.flat) for x in lu)
        nn_v = ' '.join('lemma_sq_nonneg(%s);' % views(x.flat) for x in lv)
        Tt = T.TYPE
        text += '''
// generic acos form: |u||v| cos(angle(u, v)) = u.v and the angle lies in [0, pi]
pub proof fn law_{k}_angle(u: {T}, v: {T})
    requires {k}_dot(u, u)@ != 0real, {k}_dot(v, v)@ != 0real
    ensures ({{ let th = {k}_angle_acos(u, v).0@;
        &&& 0real <= th <= r_pi()
        &&& (r_sqrt({k}_dot(u, u)@) * r_sqrt({k}_dot(v, v)@)) * r_cos(th) == {k}_dot(u, v)@ }}),
{{
    law_{k}_cs(u, v);
    {sq}
    {nn_u}
    {nn_v}
    lemma_acos_angle({k}_dot(u, v)@, {k}_dot(u, u)@, {k}_dot(v, v)@);
}}
'''.format(k=key, T=Tt, sq=' '.join(sq), nn_u=nn_u, nn_v=nn_v)
    head = '''
pub proof fn lemma_acos_angle(d: real, uu: real, vv: real)
    requires uu > 0real, vv > 0real, d * d <= uu * vv
    ensures ({ let m = r_sqrt(uu) * r_sqrt(vv); let th = r_acos(d / m);
        &&& 0real <= th <= r_pi()
        &&& m * r_cos(th) == d }),
{
    ax_sqrt(uu); ax_sqrt(vv);
    let a = r_sqrt(uu);
    let b = r_sqrt(vv);
    let m = a * b;
    assert(a > 0real) by(nonlinear_arith) requires a >= 0real, a * a == uu, uu > 0real;
    assert(b > 0real) by(nonlinear_arith) requires b >= 0real, b * b == vv, vv > 0real;
    assert(m > 0real) by(nonlinear_arith) requires a > 0real, b > 0real, m == a * b;
    assert(m * m == uu * vv) by(nonlinear_arith) requires m == a * b, a * a == uu, b * b == vv;
    let t = d / m;
    lemma_div_mul(d, m);
    assert(-1real <= t <= 1real) by(nonlinear_arith) requires m * t == d, d * d <= m * m, m > 0real;
    ax_acos(t);
}
'''
    return laws, head + text


def handwritten():
    t = '''
pub proof fn lemma_sq_nonneg(x: real) ensures x * x >= 0real { assert(x * x >= 0real) by(nonlinear_arith); }
'''
    for n in (1, 2, 3, 4):
        fs = XYZW[:n]
        sq = ' '.join('lemma_sq_nonneg(v.%s@);' % f for f in fs)
        t += '''
// |v|^2 = magnitude2(v) >= 0
pub proof fn law_v{n}_magnitude(v: Vector{n}<Sc>)
    ensures v{n}_dot(v, v)@ >= 0real, v{n}_magnitude(v)@ >= 0real, v{n}_magnitude(v)@ * v{n}_magnitude(v)@ == v{n}_dot(v, v)@,
{{
    {sq}
    ax_sqrt(v{n}_dot(v, v)@);
}}
// normalize(v) has length 1 and is a positive multiple of v (v != 0)
pub proof fn law_v{n}_normalize_unit(v: Vector{n}<Sc>)
    requires v{n}_dot(v, v)@ != 0real
    ensures v{n}_dot(v{n}_normalize(v), v{n}_normalize(v))@ == 1real,
        v{n}_scale(v{n}_normalize(v), v{n}_magnitude(v)) == v,
        v{n}_magnitude(v)@ > 0real,
{{
    law_v{n}_magnitude(v);
    let m = v{n}_magnitude(v);
    assert(m@ != 0real) by(nonlinear_arith) requires m@ * m@ == v{n}_dot(v, v)@, v{n}_dot(v, v)@ != 0real;
    law_v{n}_normalize(v, m, s_one());
    law_v{n}_scalar(v, v, s_one(), s_one());
}}
'''.format(n=n, sq=sq)
    t += '''
// |u||v| cos(angle(u, v)) = u.v  (3-D: atan2 of |u x v| and u.v, polar form; angle in [0, pi])
pub proof fn law_v3_angle(u: Vector3<Sc>, v: Vector3<Sc>)
    requires v3_dot(u, u)@ != 0real, v3_dot(v, v)@ != 0real
    ensures ({ let th = v3_angle(u, v).0@;
        &&& 0real - r_pi() <= th <= r_pi()
        &&& r_sqrt(v3_dot(u, u)@ * v3_dot(v, v)@) * r_cos(th) == v3_dot(u, v)@ }),
{
    let c = v3_cross(u, v);
    law_v3_magnitude(c);
    law_v3_cs(u, v);
    let y = v3_magnitude(c)@;
    let x = v3_dot(u, v)@;
    ax_atan2(y, x);
    assert(y * y + x * x == v3_dot(u, u)@ * v3_dot(v, v)@);
    lemma_sq_nonneg(u.x@); lemma_sq_nonneg(u.y@); lemma_sq_nonneg(u.z@);
    lemma_sq_nonneg(v.x@); lemma_sq_nonneg(v.y@); lemma_sq_nonneg(v.z@);
    assert(v3_dot(u, u)@ * v3_dot(v, v)@ != 0real) by(nonlinear_arith) requires v3_dot(u, u)@ != 0real, v3_dot(v, v)@ != 0real;
    assert(x * x + y * y == y * y + x * x);
    assert(x != 0real || y != 0real) by(nonlinear_arith) requires y * y + x * x != 0real;
}
// 2-D: signed counter-clockwise angle in [-pi, pi]
pub proof fn law_v2_angle(u: Vector2<Sc>, v: Vector2<Sc>)
    requires v2_dot(u, u)@ != 0real, v2_dot(v, v)@ != 0real
    ensures ({ let th = v2_angle(u, v).0@;
        &&& 0real - r_pi() <= th <= r_pi()
        &&& r_sqrt(v2_dot(u, u)@ * v2_dot(v, v)@) * r_cos(th) == v2_dot(u, v)@
        &&& r_sqrt(v2_dot(u, u)@ * v2_dot(v, v)@) * r_sin(th) == v2_perp_dot(u, v)@ }),
{
    law_v2_cs(u, v);
    let y = v2_perp_dot(u, v)@;
    let x = v2_dot(u, v)@;
    ax_atan2(y, x);
    assert(x * x + y * y == v2_dot(u, u)@ * v2_dot(v, v)@);
    assert(v2_dot(u, u)@ * v2_dot(v, v)@ != 0real) by(nonlinear_arith) requires v2_dot(u, u)@ != 0real, v2_dot(v, v)@ != 0real;
    assert(x != 0real || y != 0real) by(nonlinear_arith) requires x * x + y * y != 0real;
}
'''
    return t
