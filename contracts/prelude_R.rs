// prelude_R: the scalar model R (exact ordered field with elementary functions).
// Everything in this file is TRUSTED: `Sc` stands for the crate's scalar type parameter `S`
// (rule R1); its operations are external_body functions whose contracts say that they are
// the operations of the real field (assumption A1), of real analysis (A3) and of `approx` (A4).
#![allow(unused_imports, dead_code, unused_variables, non_snake_case, unused_parens, unused_mut, unused_braces)]
use vstd::prelude::*;
use vstd::std_specs::ops::*;
use vstd::std_specs::cmp::*;
use vstd::std_specs::convert::*;
use vstd::std_specs::core::IndexSpecImpl;
use core::ops::*;
use core::cmp::Ordering;
verus! {
pub struct Sc { pub g: Ghost<real> }
impl View for Sc { type V = real; open spec fn view(&self) -> real { self.g@ } }
impl Clone for Sc { #[verifier::external_body] fn clone(&self) -> (r: Sc) ensures r == *self { unimplemented!() } }
impl Copy for Sc {}
pub open spec fn sc(r: real) -> Sc { Sc { g: Ghost(r) } }
pub broadcast proof fn sc_view(a: Sc) ensures #[trigger] sc(a@) == a {}
pub open spec fn s_zero() -> Sc { sc(0real) }
pub open spec fn s_one() -> Sc { sc(1real) }
pub open spec fn s_lit(r: real) -> Sc { sc(r) }
pub open spec fn s_add(a: Sc, b: Sc) -> Sc { sc(a@ + b@) }
pub open spec fn s_sub(a: Sc, b: Sc) -> Sc { sc(a@ - b@) }
pub open spec fn s_mul(a: Sc, b: Sc) -> Sc { sc(a@ * b@) }
pub open spec fn s_div(a: Sc, b: Sc) -> Sc { sc(a@ / b@) }
pub open spec fn s_neg(a: Sc) -> Sc { sc(0real - a@) }
pub uninterp spec fn r_rem(a: real, b: real) -> real;
pub open spec fn s_rem(a: Sc, b: Sc) -> Sc { sc(r_rem(a@, b@)) }
// commutativity by trigger (used through `broadcast use` inside function bodies; see emit.rewrite_body)
pub broadcast proof fn s_mul_comm(a: Sc, b: Sc) ensures #[trigger] s_mul(a, b) == s_mul(b, a) { assert(a@ * b@ == b@ * a@) by(nonlinear_arith); }
pub broadcast proof fn s_add_comm(a: Sc, b: Sc) ensures #[trigger] s_add(a, b) == s_add(b, a) { }
// sign / association algebra by trigger: used only by the focused retry of a failed obligation (props.run_unit, rung 1)
pub broadcast proof fn s_sub_def(a: Sc, b: Sc) ensures #[trigger] s_sub(a, b) == s_add(a, s_neg(b)) { }
pub broadcast proof fn s_neg_neg(a: Sc) ensures #[trigger] s_neg(s_neg(a)) == a { }
pub broadcast proof fn s_neg_add(a: Sc, b: Sc) ensures #[trigger] s_neg(s_add(a, b)) == s_add(s_neg(a), s_neg(b)) { }
pub broadcast proof fn s_mul_neg(a: Sc, b: Sc) ensures #[trigger] s_mul(s_neg(a), b) == s_neg(s_mul(a, b)) { assert((0real - a@) * b@ == 0real - a@ * b@) by(nonlinear_arith); }
pub broadcast proof fn s_mul_assoc(a: Sc, b: Sc, c: Sc) ensures #[trigger] s_mul(s_mul(a, b), c) == s_mul(a, s_mul(b, c)) { assert((a@ * b@) * c@ == a@ * (b@ * c@)) by(nonlinear_arith); }
pub broadcast proof fn s_mul_add(a: Sc, b: Sc, c: Sc) ensures #[trigger] s_mul(a, s_add(b, c)) == s_add(s_mul(a, b), s_mul(a, c)) { assert(a@ * (b@ + c@) == a@ * b@ + a@ * c@) by(nonlinear_arith); }
pub open spec fn s_eq(a: Sc, b: Sc) -> bool { a@ == b@ }
pub open spec fn s_lt(a: Sc, b: Sc) -> bool { a@ < b@ }
pub open spec fn s_le(a: Sc, b: Sc) -> bool { a@ <= b@ }
impl AddSpecImpl for Sc { open spec fn obeys_add_spec() -> bool { true } open spec fn add_req(self, rhs: Sc) -> bool { true } open spec fn add_spec(self, rhs: Sc) -> Sc { s_add(self, rhs) } }
impl Add for Sc { type Output = Sc; #[verifier::external_body] fn add(self, rhs: Sc) -> Sc { unimplemented!() } }
impl AddAssignSpecImpl for Sc { open spec fn obeys_add_assign_spec() -> bool { true } open spec fn add_assign_req(&self, rhs: Sc) -> bool { true } open spec fn add_assign_spec(&self, rhs: Sc) -> &Sc { &s_add(*self, rhs) } }
impl AddAssign for Sc { #[verifier::external_body] fn add_assign(&mut self, rhs: Sc) { unimplemented!() } }
impl SubSpecImpl for Sc { open spec fn obeys_sub_spec() -> bool { true } open spec fn sub_req(self, rhs: Sc) -> bool { true } open spec fn sub_spec(self, rhs: Sc) -> Sc { s_sub(self, rhs) } }
impl Sub for Sc { type Output = Sc; #[verifier::external_body] fn sub(self, rhs: Sc) -> Sc { unimplemented!() } }
impl SubAssignSpecImpl for Sc { open spec fn obeys_sub_assign_spec() -> bool { true } open spec fn sub_assign_req(&self, rhs: Sc) -> bool { true } open spec fn sub_assign_spec(&self, rhs: Sc) -> &Sc { &s_sub(*self, rhs) } }
impl SubAssign for Sc { #[verifier::external_body] fn sub_assign(&mut self, rhs: Sc) { unimplemented!() } }
impl MulSpecImpl for Sc { open spec fn obeys_mul_spec() -> bool { true } open spec fn mul_req(self, rhs: Sc) -> bool { true } open spec fn mul_spec(self, rhs: Sc) -> Sc { s_mul(self, rhs) } }
impl Mul for Sc { type Output = Sc; #[verifier::external_body] fn mul(self, rhs: Sc) -> Sc { unimplemented!() } }
impl MulAssignSpecImpl for Sc { open spec fn obeys_mul_assign_spec() -> bool { true } open spec fn mul_assign_req(&self, rhs: Sc) -> bool { true } open spec fn mul_assign_spec(&self, rhs: Sc) -> &Sc { &s_mul(*self, rhs) } }
impl MulAssign for Sc { #[verifier::external_body] fn mul_assign(&mut self, rhs: Sc) { unimplemented!() } }
impl DivSpecImpl for Sc { open spec fn obeys_div_spec() -> bool { true } open spec fn div_req(self, rhs: Sc) -> bool { true } open spec fn div_spec(self, rhs: Sc) -> Sc { s_div(self, rhs) } }
impl Div for Sc { type Output = Sc; #[verifier::external_body] fn div(self, rhs: Sc) -> Sc { unimplemented!() } }
impl DivAssignSpecImpl for Sc { open spec fn obeys_div_assign_spec() -> bool { true } open spec fn div_assign_req(&self, rhs: Sc) -> bool { true } open spec fn div_assign_spec(&self, rhs: Sc) -> &Sc { &s_div(*self, rhs) } }
impl DivAssign for Sc { #[verifier::external_body] fn div_assign(&mut self, rhs: Sc) { unimplemented!() } }
impl RemSpecImpl for Sc { open spec fn obeys_rem_spec() -> bool { true } open spec fn rem_req(self, rhs: Sc) -> bool { true } open spec fn rem_spec(self, rhs: Sc) -> Sc { s_rem(self, rhs) } }
impl Rem for Sc { type Output = Sc; #[verifier::external_body] fn rem(self, rhs: Sc) -> Sc { unimplemented!() } }
impl RemAssignSpecImpl for Sc { open spec fn obeys_rem_assign_spec() -> bool { true } open spec fn rem_assign_req(&self, rhs: Sc) -> bool { true } open spec fn rem_assign_spec(&self, rhs: Sc) -> &Sc { &s_rem(*self, rhs) } }
impl RemAssign for Sc { #[verifier::external_body] fn rem_assign(&mut self, rhs: Sc) { unimplemented!() } }
impl NegSpecImpl for Sc { open spec fn obeys_neg_spec() -> bool { true } open spec fn neg_req(self) -> bool { true } open spec fn neg_spec(self) -> Sc { s_neg(self) } }
impl Neg for Sc { type Output = Sc; #[verifier::external_body] fn neg(self) -> Sc { unimplemented!() } }
impl PartialEqSpecImpl for Sc { open spec fn obeys_eq_spec() -> bool { true } open spec fn eq_spec(&self, o: &Sc) -> bool { s_eq(*self, *o) } }
impl PartialEq for Sc { #[verifier::external_body] fn eq(&self, o: &Sc) -> bool { unimplemented!() } }
pub open spec fn s_partial_cmp(a: Sc, b: Sc) -> Option<Ordering> { if a@ < b@ { Some(Ordering::Less) } else if a@ == b@ { Some(Ordering::Equal) } else { Some(Ordering::Greater) } }
impl PartialOrdSpecImpl for Sc { open spec fn obeys_partial_cmp_spec() -> bool { true } open spec fn partial_cmp_spec(&self, o: &Sc) -> Option<Ordering> { s_partial_cmp(*self, *o) } }
impl PartialOrd for Sc { #[verifier::external_body] fn partial_cmp(&self, o: &Sc) -> Option<Ordering> { unimplemented!() } }

// ---- num_traits::{Zero, One} (external crate; declarations trusted)
pub trait Zero: Sized { fn zero() -> Self; #[verifier::external_body] fn is_zero(&self) -> bool { unimplemented!() } }
pub trait One: Sized { fn one() -> Self; }
impl Zero for Sc {
    #[verifier::external_body] fn zero() -> (r: Sc) ensures r == s_zero() { unimplemented!() }
    #[verifier::external_body] fn is_zero(&self) -> (r: bool) ensures r == s_eq(*self, s_zero()) { unimplemented!() }
}
impl One for Sc { #[verifier::external_body] fn one() -> (r: Sc) ensures r == s_one() { unimplemented!() } }

// ---- A3: elementary functions (uninterpreted over the reals; axioms below are theorems of real analysis)
pub uninterp spec fn r_sqrt(x: real) -> real;
pub uninterp spec fn r_sin(x: real) -> real;
pub uninterp spec fn r_cos(x: real) -> real;
pub uninterp spec fn r_tan(x: real) -> real;
pub uninterp spec fn r_asin(x: real) -> real;
pub uninterp spec fn r_acos(x: real) -> real;
pub uninterp spec fn r_atan(x: real) -> real;
pub uninterp spec fn r_atan2(y: real, x: real) -> real;
pub uninterp spec fn r_pi() -> real;
pub uninterp spec fn r_quot(a: real, m: real) -> int;
pub open spec fn r_abs(x: real) -> real { if x < 0real { 0real - x } else { x } }
pub open spec fn r_min(a: real, b: real) -> real { if a < b { a } else { b } }
pub open spec fn r_max(a: real, b: real) -> real { if a < b { b } else { a } }
#[verifier::external_body] pub proof fn ax_sqrt(x: real) requires x >= 0real ensures r_sqrt(x) >= 0real, r_sqrt(x) * r_sqrt(x) == x {}
#[verifier::external_body] pub proof fn ax_pi() ensures 3.14159real < r_pi(), r_pi() < 3.1416real {}
#[verifier::external_body] pub proof fn ax_pythagoras(x: real) ensures r_sin(x) * r_sin(x) + r_cos(x) * r_cos(x) == 1real {}
#[verifier::external_body] pub proof fn ax_sin_add(x: real, y: real) ensures r_sin(x + y) == r_sin(x) * r_cos(y) + r_cos(x) * r_sin(y) {}
#[verifier::external_body] pub proof fn ax_cos_add(x: real, y: real) ensures r_cos(x + y) == r_cos(x) * r_cos(y) - r_sin(x) * r_sin(y) {}
#[verifier::external_body] pub proof fn ax_sin_nonneg(x: real) requires 0real <= x <= r_pi() ensures r_sin(x) >= 0real {}
#[verifier::external_body] pub proof fn ax_cos_nonneg(x: real) requires 0real - r_pi() / 2real <= x <= r_pi() / 2real ensures r_cos(x) >= 0real {}
#[verifier::external_body] pub proof fn ax_sin_neg(x: real) ensures r_sin(0real - x) == 0real - r_sin(x) {}
#[verifier::external_body] pub proof fn ax_cos_neg(x: real) ensures r_cos(0real - x) == r_cos(x) {}
#[verifier::external_body] pub proof fn ax_trig_values() ensures r_sin(0real) == 0real, r_cos(0real) == 1real, r_sin(r_pi() / 2real) == 1real, r_cos(r_pi() / 2real) == 0real {}
#[verifier::external_body] pub proof fn ax_tan(x: real) ensures r_tan(x) == r_sin(x) / r_cos(x) {}
#[verifier::external_body] pub proof fn ax_asin(t: real) requires -1real <= t <= 1real ensures 0real - r_pi() / 2real <= r_asin(t) <= r_pi() / 2real, r_sin(r_asin(t)) == t {}
#[verifier::external_body] pub proof fn ax_acos(t: real) requires -1real <= t <= 1real ensures 0real <= r_acos(t) <= r_pi(), r_cos(r_acos(t)) == t {}
#[verifier::external_body] pub proof fn ax_atan(t: real) ensures 0real - r_pi() / 2real < r_atan(t) < r_pi() / 2real, r_tan(r_atan(t)) == t {}
#[verifier::external_body] pub proof fn ax_atan2(y: real, x: real) ensures 0real - r_pi() <= r_atan2(y, x) <= r_pi(),
    (x != 0real || y != 0real) ==> r_sqrt(x * x + y * y) * r_cos(r_atan2(y, x)) == x && r_sqrt(x * x + y * y) * r_sin(r_atan2(y, x)) == y {}
#[verifier::external_body] pub proof fn ax_atan2_nonneg(y: real, x: real) requires y >= 0real ensures r_atan2(y, x) >= 0real {}
#[verifier::external_body] pub proof fn ax_cos_inj(a: real, b: real) requires 0real <= a <= r_pi(), 0real <= b <= r_pi(), r_cos(a) == r_cos(b) ensures a == b {}
#[verifier::external_body] pub proof fn ax_sin_inj(a: real, b: real) requires 0real - r_pi() / 2real <= a <= r_pi() / 2real, 0real - r_pi() / 2real <= b <= r_pi() / 2real, r_sin(a) == r_sin(b) ensures a == b {}
#[verifier::external_body] pub proof fn ax_fmod(a: real, m: real) requires m != 0real
    ensures a == (r_quot(a, m) as real) * m + r_rem(a, m), r_abs(r_rem(a, m)) < r_abs(m), a >= 0real ==> r_rem(a, m) >= 0real, a <= 0real ==> r_rem(a, m) <= 0real {}
// ---- num_traits::Float / approx on the model scalar (external crates; contracts trusted: A3, A4)
pub uninterp spec fn r_finite(x: real) -> bool;
pub uninterp spec fn r_epsilon() -> real;
pub uninterp spec fn r_min_positive() -> real;
pub uninterp spec fn r_max_value() -> real;
impl Sc {
    #[verifier::external_body] pub fn sqrt(self) -> (r: Sc) ensures r@ == r_sqrt(self@) { unimplemented!() }
    #[verifier::external_body] pub fn sin(self) -> (r: Sc) ensures r@ == r_sin(self@) { unimplemented!() }
    #[verifier::external_body] pub fn cos(self) -> (r: Sc) ensures r@ == r_cos(self@) { unimplemented!() }
    #[verifier::external_body] pub fn tan(self) -> (r: Sc) ensures r@ == r_tan(self@) { unimplemented!() }
    #[verifier::external_body] pub fn sin_cos(self) -> (r: (Sc, Sc)) ensures r.0@ == r_sin(self@), r.1@ == r_cos(self@) { unimplemented!() }
    #[verifier::external_body] pub fn asin(self) -> (r: Sc) ensures r@ == r_asin(self@) { unimplemented!() }
    #[verifier::external_body] pub fn acos(self) -> (r: Sc) ensures r@ == r_acos(self@) { unimplemented!() }
    #[verifier::external_body] pub fn atan(self) -> (r: Sc) ensures r@ == r_atan(self@) { unimplemented!() }
    #[verifier::external_body] pub fn atan2(self, other: Sc) -> (r: Sc) ensures r@ == r_atan2(self@, other@) { unimplemented!() }
    #[verifier::external_body] pub fn recip(self) -> (r: Sc) ensures r@ == 1real / self@ { unimplemented!() }
    #[verifier::external_body] pub fn abs(self) -> (r: Sc) ensures r@ == r_abs(self@) { unimplemented!() }
    #[verifier::external_body] pub fn min(self, other: Sc) -> (r: Sc) ensures r@ == r_min(self@, other@) { unimplemented!() }
    #[verifier::external_body] pub fn max(self, other: Sc) -> (r: Sc) ensures r@ == r_max(self@, other@) { unimplemented!() }
    #[verifier::external_body] pub fn is_finite(self) -> (r: bool) ensures r == r_finite(self@) { unimplemented!() }
    // further num_traits::Float surface a change to the crate may reach for (A3): machine constants are uninterpreted reals of
    // which only the sign / order facts every IEEE type satisfies are assumed
    #[verifier::external_body] pub fn epsilon() -> (r: Sc) ensures r@ == r_epsilon(), r@ > 0real, r@ < 1real { unimplemented!() }
    #[verifier::external_body] pub fn min_positive_value() -> (r: Sc) ensures r@ == r_min_positive(), r@ > 0real, r@ < r_epsilon() { unimplemented!() }
    #[verifier::external_body] pub fn max_value() -> (r: Sc) ensures r@ == r_max_value(), r@ > 1000000real { unimplemented!() }
    #[verifier::external_body] pub fn min_value() -> (r: Sc) ensures r@ == 0real - r_max_value() { unimplemented!() }
    #[verifier::external_body] pub fn mul_add(self, a: Sc, b: Sc) -> (r: Sc) ensures r@ == self@ * a@ + b@ { unimplemented!() }
    #[verifier::external_body] pub fn signum(self) -> (r: Sc) ensures r@ == (if self@ < 0real { 0real - 1real } else { 1real }) { unimplemented!() }
    #[verifier::external_body] pub fn is_sign_negative(self) -> (r: bool) ensures self@ < 0real ==> r, self@ > 0real ==> !r { unimplemented!() }
    #[verifier::external_body] pub fn is_sign_positive(self) -> (r: bool) ensures self@ > 0real ==> r, self@ < 0real ==> !r { unimplemented!() }
    #[verifier::external_body] pub fn is_nan(self) -> (r: bool) ensures r_finite(self@) ==> !r { unimplemented!() }
    #[verifier::external_body] pub fn is_infinite(self) -> (r: bool) ensures r_finite(self@) ==> !r { unimplemented!() }
    #[verifier::external_body] pub fn hypot(self, other: Sc) -> (r: Sc) ensures r@ == r_sqrt(self@ * self@ + other@ * other@) { unimplemented!() }
    #[verifier::external_body] pub fn const_180_over_pi() -> (r: Sc) ensures r@ == 180real / r_pi() { unimplemented!() }
    #[verifier::external_body] pub fn const_pi_over_180() -> (r: Sc) ensures r@ == r_pi() / 180real { unimplemented!() }
    #[verifier::external_body] pub fn const_two_pi() -> (r: Sc) ensures r@ == r_pi() * 2real { unimplemented!() }
}
// rule R5: a compile-time constant of the crate (`cast(<float constant expression>)`): the model scalar holding exactly that real
pub fn sc_const(Ghost(v): Ghost<real>) -> (r: Sc) ensures r@ == v { Sc { g: Ghost(v) } }
// num_traits::cast from an integer type into the scalar: exact (A1: rounding of large integers to S is not modelled)
pub trait IntSrc: Sized { spec fn to_real(self) -> real; }
impl IntSrc for u8 { open spec fn to_real(self) -> real { self as int as real } }
impl IntSrc for u16 { open spec fn to_real(self) -> real { self as int as real } }
impl IntSrc for u32 { open spec fn to_real(self) -> real { self as int as real } }
impl IntSrc for u64 { open spec fn to_real(self) -> real { self as int as real } }
impl IntSrc for usize { open spec fn to_real(self) -> real { self as int as real } }
impl IntSrc for i8 { open spec fn to_real(self) -> real { self as int as real } }
impl IntSrc for i16 { open spec fn to_real(self) -> real { self as int as real } }
impl IntSrc for i32 { open spec fn to_real(self) -> real { self as int as real } }
impl IntSrc for i64 { open spec fn to_real(self) -> real { self as int as real } }
impl IntSrc for isize { open spec fn to_real(self) -> real { self as int as real } }
#[verifier::external_body] pub fn cast<T: IntSrc>(x: T) -> (r: Option<Sc>) ensures r == Some(sc(x.to_real())) { unimplemented!() }
// `Float::sqrt(x)` path form
pub struct Float {}
impl Float {
    #[verifier::external_body] pub fn sqrt(x: Sc) -> (r: Sc) ensures r@ == r_sqrt(x@) { unimplemented!() }
    #[verifier::external_body] pub fn abs(x: Sc) -> (r: Sc) ensures r@ == r_abs(x@) { unimplemented!() }
    #[verifier::external_body] pub fn recip(x: Sc) -> (r: Sc) ensures r@ == 1real / x@ { unimplemented!() }
    #[verifier::external_body] pub fn sin(x: Sc) -> (r: Sc) ensures r@ == r_sin(x@) { unimplemented!() }
    #[verifier::external_body] pub fn cos(x: Sc) -> (r: Sc) ensures r@ == r_cos(x@) { unimplemented!() }
    #[verifier::external_body] pub fn tan(x: Sc) -> (r: Sc) ensures r@ == r_tan(x@) { unimplemented!() }
    #[verifier::external_body] pub fn sin_cos(x: Sc) -> (r: (Sc, Sc)) ensures r.0@ == r_sin(x@), r.1@ == r_cos(x@) { unimplemented!() }
    #[verifier::external_body] pub fn asin(x: Sc) -> (r: Sc) ensures r@ == r_asin(x@) { unimplemented!() }
    #[verifier::external_body] pub fn acos(x: Sc) -> (r: Sc) ensures r@ == r_acos(x@) { unimplemented!() }
    #[verifier::external_body] pub fn atan(x: Sc) -> (r: Sc) ensures r@ == r_atan(x@) { unimplemented!() }
    #[verifier::external_body] pub fn atan2(y: Sc, x: Sc) -> (r: Sc) ensures r@ == r_atan2(y@, x@) { unimplemented!() }
    #[verifier::external_body] pub fn min(a: Sc, b: Sc) -> (r: Sc) ensures r@ == r_min(a@, b@) { unimplemented!() }
    #[verifier::external_body] pub fn max(a: Sc, b: Sc) -> (r: Sc) ensures r@ == r_max(a@, b@) { unimplemented!() }
    #[verifier::external_body] pub fn epsilon() -> (r: Sc) ensures r@ == r_epsilon(), r@ > 0real, r@ < 1real { unimplemented!() }
}

// ---- A4: approx comparisons on the model scalar with default tolerances (uninterpreted; only the facts below are assumed)
pub uninterp spec fn s_ulps_eq(a: Sc, b: Sc, eps: Sc, max_ulps: u32) -> bool;
pub uninterp spec fn s_abs_diff_eq(a: Sc, b: Sc, eps: Sc) -> bool;
pub uninterp spec fn s_relative_eq(a: Sc, b: Sc, eps: Sc, max_rel: Sc) -> bool;
pub uninterp spec fn s_default_epsilon() -> Sc;
pub uninterp spec fn s_default_max_relative() -> Sc;
pub uninterp spec fn s_default_max_ulps() -> u32;
pub open spec fn s_ulps_eq_default(a: Sc, b: Sc) -> bool { s_ulps_eq(a, b, s_default_epsilon(), s_default_max_ulps()) }
pub open spec fn s_abs_diff_eq_default(a: Sc, b: Sc) -> bool { s_abs_diff_eq(a, b, s_default_epsilon()) }
#[verifier::external_body] pub proof fn ax_approx_refl(x: Sc) ensures s_ulps_eq_default(x, x), s_abs_diff_eq_default(x, x) {}
#[verifier::external_body] pub proof fn ax_approx_zero_sep(x: Sc) requires r_abs(x@) > 1real / 1000000real ensures !s_ulps_eq_default(x, s_zero()), !s_abs_diff_eq_default(x, s_zero()) {}
// rule R13: `ulps_eq!(a, b)` expands to `::approx::Ulps::default().eq(&a, &b)`; forwarded to the type's ulps_eq with default tolerances
pub trait ApproxModel: Sized {
    spec fn ulps_eq_default_spec(a: Self, b: Self) -> bool;
    spec fn abs_diff_eq_default_spec(a: Self, b: Self) -> bool;
}
impl ApproxModel for Sc {
    open spec fn ulps_eq_default_spec(a: Sc, b: Sc) -> bool { s_ulps_eq_default(a, b) }
    open spec fn abs_diff_eq_default_spec(a: Sc, b: Sc) -> bool { s_abs_diff_eq_default(a, b) }
}
#[verifier::external_body] pub fn ulps_default_eq<T: ApproxModel>(a: &T, b: &T) -> (r: bool) ensures r == T::ulps_eq_default_spec(*a, *b) { unimplemented!() }
#[verifier::external_body] pub fn ulps_default_ne<T: ApproxModel>(a: &T, b: &T) -> (r: bool) ensures r == !T::ulps_eq_default_spec(*a, *b) { unimplemented!() }
#[verifier::external_body] pub fn abs_diff_default_eq<T: ApproxModel>(a: &T, b: &T) -> (r: bool) ensures r == T::abs_diff_eq_default_spec(*a, *b) { unimplemented!() }
#[verifier::external_body] pub fn abs_diff_default_ne<T: ApproxModel>(a: &T, b: &T) -> (r: bool) ensures r == !T::abs_diff_eq_default_spec(*a, *b) { unimplemented!() }
impl<'a, T: ApproxModel> ApproxModel for &'a T {
    open spec fn ulps_eq_default_spec(a: &'a T, b: &'a T) -> bool { T::ulps_eq_default_spec(*a, *b) }
    open spec fn abs_diff_eq_default_spec(a: &'a T, b: &'a T) -> bool { T::abs_diff_eq_default_spec(*a, *b) }
}
// rule R13 with explicit builder options: `ulps_eq!(a, b, epsilon = e, max_ulps = n)` expands to
// `::approx::Ulps::default().epsilon(e).max_ulps(n).eq(&a, &b)`; an option that is not given keeps the type's default
pub trait ApproxOpts: Sized {
    spec fn ulps_eq_opts_spec(a: Self, b: Self, eps: Option<Sc>, mu: Option<u32>) -> bool;
    spec fn abs_diff_eq_opts_spec(a: Self, b: Self, eps: Option<Sc>) -> bool;
}
pub open spec fn opt_sc(o: Option<Sc>, d: Sc) -> Sc { match o { Some(x) => x, None => d } }
pub open spec fn opt_u32(o: Option<u32>, d: u32) -> u32 { match o { Some(x) => x, None => d } }
impl ApproxOpts for Sc {
    open spec fn ulps_eq_opts_spec(a: Sc, b: Sc, eps: Option<Sc>, mu: Option<u32>) -> bool { s_ulps_eq(a, b, opt_sc(eps, s_default_epsilon()), opt_u32(mu, s_default_max_ulps())) }
    open spec fn abs_diff_eq_opts_spec(a: Sc, b: Sc, eps: Option<Sc>) -> bool { s_abs_diff_eq(a, b, opt_sc(eps, s_default_epsilon())) }
}
#[verifier::external_body] pub fn ulps_opts_eq<T: ApproxOpts>(eps: Option<Sc>, mu: Option<u32>, a: &T, b: &T) -> (r: bool) ensures r == T::ulps_eq_opts_spec(*a, *b, eps, mu) { unimplemented!() }
#[verifier::external_body] pub fn ulps_opts_ne<T: ApproxOpts>(eps: Option<Sc>, mu: Option<u32>, a: &T, b: &T) -> (r: bool) ensures r == !T::ulps_eq_opts_spec(*a, *b, eps, mu) { unimplemented!() }
#[verifier::external_body] pub fn abs_diff_opts_eq<T: ApproxOpts>(eps: Option<Sc>, a: &T, b: &T) -> (r: bool) ensures r == T::abs_diff_eq_opts_spec(*a, *b, eps) { unimplemented!() }
#[verifier::external_body] pub fn abs_diff_opts_ne<T: ApproxOpts>(eps: Option<Sc>, a: &T, b: &T) -> (r: bool) ensures r == !T::abs_diff_eq_opts_spec(*a, *b, eps) { unimplemented!() }
// ---- the approx traits (external crate; declarations trusted) and their impls for the model scalar (A4)
pub mod approx {
    use super::*;
    pub trait AbsDiffEq: Sized { type Epsilon; fn default_epsilon() -> Self::Epsilon; fn abs_diff_eq(&self, other: &Self, epsilon: Self::Epsilon) -> bool; }
    pub trait RelativeEq: AbsDiffEq { fn default_max_relative() -> Self::Epsilon; fn relative_eq(&self, other: &Self, epsilon: Self::Epsilon, max_relative: Self::Epsilon) -> bool; }
    pub trait UlpsEq: AbsDiffEq { fn default_max_ulps() -> u32; fn ulps_eq(&self, other: &Self, epsilon: Self::Epsilon, max_ulps: u32) -> bool; }
    impl AbsDiffEq for Sc { type Epsilon = Sc;
        #[verifier::external_body] fn default_epsilon() -> (r: Sc) ensures r == s_default_epsilon() { unimplemented!() }
        #[verifier::external_body] fn abs_diff_eq(&self, other: &Sc, epsilon: Sc) -> (r: bool) ensures r == s_abs_diff_eq(*self, *other, epsilon) { unimplemented!() } }
    impl RelativeEq for Sc {
        #[verifier::external_body] fn default_max_relative() -> (r: Sc) ensures r == s_default_max_relative() { unimplemented!() }
        #[verifier::external_body] fn relative_eq(&self, other: &Sc, epsilon: Sc, max_relative: Sc) -> (r: bool) ensures r == s_relative_eq(*self, *other, epsilon, max_relative) { unimplemented!() } }
    impl UlpsEq for Sc {
        #[verifier::external_body] fn default_max_ulps() -> (r: u32) ensures r == s_default_max_ulps() { unimplemented!() }
        #[verifier::external_body] fn ulps_eq(&self, other: &Sc, epsilon: Sc, max_ulps: u32) -> (r: bool) ensures r == s_ulps_eq(*self, *other, epsilon, max_ulps) { unimplemented!() } }
}
// ---- rule R9: panic entry points
#[verifier::external_body] pub fn vpanic() -> ! requires false { loop {} }
#[verifier::external_body] pub fn diverge() -> ! ensures false { loop {} }
#[verifier::external_body] pub fn vpanic_iff(Ghost(violated): Ghost<bool>) -> ! requires violated ensures false { loop {} }
} // verus!
