// prelude_R: the scalar model R (exact ordered field with elementary functions).
// Everything in this file is TRUSTED: `Sc` stands for the crate's scalar type parameter `S`
// (rule R1); its operations are external_body functions whose contracts say that they are
// the operations of the real field (assumption A1), of real analysis (A3) and of `approx` (A4).
#![allow(unused_imports, dead_code, unused_variables, non_snake_case, unused_parens, unused_mut, unused_braces)]
use vstd::prelude::*;
use vstd::std_specs::ops::*;
use vstd::std_specs::cmp::*;
use vstd::std_specs::convert::*;
use vstd::std_specs::core::IndexSpecImpl;
use core::ops::*;
use core::cmp::Ordering;
verus! {
pub struct Sc { pub g: Ghost<real> }
impl View for Sc { type V = real; open spec fn view(&self) -> real { self.g@ } }
impl Clone for Sc { #[verifier::external_body] fn clone(&self) -> (r: Sc) ensures r == *self { unimplemented!() } }
impl Copy for Sc {}
pub open spec fn sc(r: real) -> Sc { Sc { g: Ghost(r) } }
pub broadcast proof fn sc_view(a: Sc) ensures #[trigger] sc(a@) == a {}
pub open spec fn s_zero() -> Sc { sc(0real) }
pub open spec fn s_one() -> Sc { sc(1real) }
pub open spec fn s_lit(r: real) -> Sc { sc(r) }
pub open spec fn s_add(a: Sc, b: Sc) -> Sc { sc(a@ + b@) }
pub open spec fn s_sub(a: Sc, b: Sc) -> Sc { sc(a@ - b@) }
pub open spec fn s_mul(a: Sc, b: Sc) -> Sc { sc(a@ * b@) }
pub open spec fn s_div(a: Sc, b: Sc) -> Sc { sc(a@ / b@) }
pub open spec fn s_neg(a: Sc) -> Sc { sc(0real - a@) }
pub uninterp spec fn r_rem(a: real, b: real) -> real;
pub open spec fn s_rem(a: Sc, b: Sc) -> Sc { sc(r_rem(a@, b@)) }
pub open spec fn s_eq(a: Sc, b: Sc) -> bool { a@ == b@ }
pub open spec fn s_lt(a: Sc, b: Sc) -> bool { a@ < b@ }
pub open spec fn s_le(a: Sc, b: Sc) -> bool { a@ <= b@ }
impl AddSpecImpl for Sc { open spec fn obeys_add_spec() -> bool { true } open spec fn add_req(self, rhs: Sc) -> bool { true } open spec fn add_spec(self, rhs: Sc) -> Sc { s_add(self, rhs) } }
impl Add for Sc { type Output = Sc; #[verifier::external_body] fn add(self, rhs: Sc) -> Sc { unimplemented!() } }
impl AddAssignSpecImpl for Sc { open spec fn obeys_add_assign_spec() -> bool { true } open spec fn add_assign_req(&self, rhs: Sc) -> bool { true } open spec fn add_assign_spec(&self, rhs: Sc) -> &Sc { &s_add(*self, rhs) } }
impl AddAssign for Sc { #[verifier::external_body] fn add_assign(&mut self, rhs: Sc) { unimplemented!() } }
impl SubSpecImpl for Sc { open spec fn obeys_sub_spec() -> bool { true } open spec fn sub_req(self, rhs: Sc) -> bool { true } open spec fn sub_spec(self, rhs: Sc) -> Sc { s_sub(self, rhs) } }
impl Sub for Sc { type Output = Sc; #[verifier::external_body] fn sub(self, rhs: Sc) -> Sc { unimplemented!() } }
impl SubAssignSpecImpl for Sc { open spec fn obeys_sub_assign_spec() -> bool { true } open spec fn sub_assign_req(&self, rhs: Sc) -> bool { true } open spec fn sub_assign_spec(&self, rhs: Sc) -> &Sc { &s_sub(*self, rhs) } }
impl SubAssign for Sc { #[verifier::external_body] fn sub_assign(&mut self, rhs: Sc) { unimplemented!() } }
impl MulSpecImpl for Sc { open spec fn obeys_mul_spec() -> bool { true } open spec fn mul_req(self, rhs: Sc) -> bool { true } open spec fn mul_spec(self, rhs: Sc) -> Sc { s_mul(self, rhs) } }
impl Mul for Sc { type Output = Sc; #[verifier::external_body] fn mul(self, rhs: Sc) -> Sc { unimplemented!() } }
impl MulAssignSpecImpl for Sc { open spec fn obeys_mul_assign_spec() -> bool { true } open spec fn mul_assign_req(&self, rhs: Sc) -> bool { true } open spec fn mul_assign_spec(&self, rhs: Sc) -> &Sc { &s_mul(*self, rhs) } }
impl MulAssign for Sc { #[verifier::external_body] fn mul_assign(&mut self, rhs: Sc) { unimplemented!() } }
impl DivSpecImpl for Sc { open spec fn obeys_div_spec() -> bool { true } open spec fn div_req(self, rhs: Sc) -> bool { true } open spec fn div_spec(self, rhs: Sc) -> Sc { s_div(self, rhs) } }
impl Div for Sc { type Output = Sc; #[verifier::external_body] fn div(self, rhs: Sc) -> Sc { unimplemented!() } }
impl DivAssignSpecImpl for Sc { open spec fn obeys_div_assign_spec() -> bool { true } open spec fn div_assign_req(&self, rhs: Sc) -> bool { true } open spec fn div_assign_spec(&self, rhs: Sc) -> &Sc { &s_div(*self, rhs) } }
impl DivAssign for Sc { #[verifier::external_body] fn div_assign(&mut self, rhs: Sc) { unimplemented!() } }
impl RemSpecImpl for Sc { open spec fn obeys_rem_spec() -> bool { true } open spec fn rem_req(self, rhs: Sc) -> bool { true } open spec fn rem_spec(self, rhs: Sc) -> Sc { s_rem(self, rhs) } }
impl Rem for Sc { type Output = Sc; #[verifier::external_body] fn rem(self, rhs: Sc) -> Sc { unimplemented!() } }
impl RemAssignSpecImpl for Sc { open spec fn obeys_rem_assign_spec() -> bool { true } open spec fn rem_assign_req(&self, rhs: Sc) -> bool { true } open spec fn rem_assign_spec(&self, rhs: Sc) -> &Sc { &s_rem(*self, rhs) } }
impl RemAssign for Sc { #[verifier::external_body] fn rem_assign(&mut self, rhs: Sc) { unimplemented!() } }
impl NegSpecImpl for Sc { open spec fn obeys_neg_spec() -> bool { true } open spec fn neg_req(self) -> bool { true } open spec fn neg_spec(self) -> Sc { s_neg(self) } }
impl Neg for Sc { type Output = Sc; #[verifier::external_body] fn neg(self) -> Sc { unimplemented!() } }
impl PartialEqSpecImpl for Sc { open spec fn obeys_eq_spec() -> bool { true } open spec fn eq_spec(&self, o: &Sc) -> bool { s_eq(*self, *o) } }
impl PartialEq for Sc { #[verifier::external_body] fn eq(&self, o: &Sc) -> bool { unimplemented!() } }
pub open spec fn s_partial_cmp(a: Sc, b: Sc) -> Option<Ordering> { if a@ < b@ { Some(Ordering::Less) } else if a@ == b@ { Some(Ordering::Equal) } else { Some(Ordering::Greater) } }
impl PartialOrdSpecImpl for Sc { open spec fn obeys_partial_cmp_spec() -> bool { true } open spec fn partial_cmp_spec(&self, o: &Sc) -> Option<Ordering> { s_partial_cmp(*self, *o) } }
impl PartialOrd for Sc { #[verifier::external_body] fn partial_cmp(&self, o: &Sc) -> Option<Ordering> { unimplemented!() } }

// ---- num_traits::{Zero, One} (external crate; declarations trusted)
pub trait Zero: Sized { fn zero() -> Self; #[verifier::external_body] fn is_zero(&self) -> bool { unimplemented!() } }
pub trait One: Sized { fn one() -> Self; }
impl Zero for Sc {
    #[verifier::external_body] fn zero() -> (r: Sc) ensures r == s_zero() { unimplemented!() }
    #[verifier::external_body] fn is_zero(&self) -> (r: bool) ensures r == s_eq(*self, s_zero()) { unimplemented!() }
}
impl One for Sc { #[verifier::external_body] fn one() -> (r: Sc) ensures r == s_one() { unimplemented!() } }
// ---- rule R9: panic entry points
#[verifier::external_body] pub fn vpanic() -> ! requires false { loop {} }
#[verifier::external_body] pub fn diverge() -> ! ensures false { loop {} }
} // verus!
