"""Projections (C10): contracts `panics iff the stated precondition is violated, else returns the documented matrix`, laws."""
import re
from common import *
from sym import R, B, Struct, SpecLib, Law, CertLaw, s_eq, lift
from c_vector import V, comps
from c_point import P
from c_matrix import M, at
from c_angle import Rad, fn1, val

V3, V4, M4, P3 = V[3], V[4], M[4], P[3]


class Ortho(Struct):
    TYPE = 'Ortho<Sc>'
    FIELDS = [(f, R) for f in ('left', 'right', 'bottom', 'top', 'near', 'far')]


class Persp(Struct):
    TYPE = 'Perspective<Sc>'
    FIELDS = [(f, R) for f in ('left', 'right', 'bottom', 'top', 'near', 'far')]


class PFov(Struct):
    TYPE = 'PerspectiveFov<Sc>'
    FIELDS = [('fovy', Rad), ('aspect', R), ('near', R), ('far', R)]


class Planar(Struct):
    TYPE = 'PlanarFov<Sc>'
    FIELDS = [('fovy', Rad), ('aspect', R), ('height', R), ('near', R), ('far', R)]


def build(lib: SpecLib, F):
    Z, O, two = R.lit(0), R.lit(1), R.lit(2)

    def m4(e):   # e[c][r]
        return M4(*[V4(*col) for col in e])
    F['m4_ortho'] = lib.fn('m4_ortho', [Ortho], M4, argnames=['o'])(lambda o: m4([
        [two / (o.right - o.left), Z, Z, Z], [Z, two / (o.top - o.bottom), Z, Z], [Z, Z, -two / (o.far - o.near), Z],
        [-(o.right + o.left) / (o.right - o.left), -(o.top + o.bottom) / (o.top - o.bottom), -(o.far + o.near) / (o.far - o.near), O]]))
    F['m4_frustum'] = lib.fn('m4_frustum', [Persp], M4, argnames=['p'])(lambda p: m4([
        [(two * p.near) / (p.right - p.left), Z, Z, Z], [Z, (two * p.near) / (p.top - p.bottom), Z, Z],
        [(p.right + p.left) / (p.right - p.left), (p.top + p.bottom) / (p.top - p.bottom), -(p.far + p.near) / (p.far - p.near), -O],
        [Z, Z, -(two * p.far * p.near) / (p.far - p.near), Z]]))

    def cot_half(fovy):
        return R.lit(1) / fn1('r_tan', val(fovy) / two)
    F['m4_perspective'] = lib.fn('m4_perspective', [PFov], M4, argnames=['p'])(lambda p: m4([
        [cot_half(p.fovy) / p.aspect, Z, Z, Z], [Z, cot_half(p.fovy), Z, Z],
        [Z, Z, (p.far + p.near) / (p.near - p.far), -O], [Z, Z, (two * p.far * p.near) / (p.near - p.far), Z]]))
    F['fov_to_perspective'] = lib.fn('fov_to_perspective', [PFov], Persp, argnames=['p'])(lambda p: (lambda ymax: Persp(
        -(ymax * p.aspect), ymax * p.aspect, -ymax, ymax, p.near, p.far))(p.near * fn1('r_tan', val(p.fovy) / two)))

    def inv_f(p):
        return fn1('r_tan', val(p.fovy) / two) * two / p.height
    F['m4_planar'] = lib.fn('m4_planar', [Planar], M4, argnames=['p'])(lambda p: m4([
        [two / (p.aspect * p.height), Z, Z, Z], [Z, two / p.height, Z, Z],
        [Z, Z, ((p.far + p.near) * inv_f(p) + two) / (p.near - p.far), -inv_f(p)],
        [Z, Z, (two * p.far * p.near * inv_f(p) + (p.far + p.near)) / (p.near - p.far), O]]))
    F['planar_inv_f'] = inv_f
    return F


def text_specs():
    return '''
pub open spec fn s_ne_approx(a: Sc, b: Sc) -> bool { !s_abs_diff_eq_default(a, b) }
pub open spec fn valid_perspective_fov(p: PerspectiveFov<Sc>) -> bool {
    p.fovy.0@ > 0real && p.fovy.0@ < rad_turn_div_2().0@ && s_ne_approx(sc(r_abs(p.aspect@)), s_zero())
    && p.near@ > 0real && p.far@ > 0real && s_ne_approx(p.far, p.near)
}
pub open spec fn valid_frustum(p: Perspective<Sc>) -> bool { p.left@ <= p.right@ && p.bottom@ <= p.top@ && p.near@ <= p.far@ }
pub open spec fn planar_focal(p: PlanarFov<Sc>) -> real { 0real - 1real / (r_tan(p.fovy.0@ / 2real) * 2real / p.height@) }
pub open spec fn valid_planar(p: PlanarFov<Sc>) -> bool {
    p.fovy.0@ > 0real - rad_turn_div_2().0@ && p.fovy.0@ < rad_turn_div_2().0@ && p.height@ >= 0real
    && s_ne_approx(sc(r_abs(p.aspect@)), s_zero()) && s_ne_approx(p.far, p.near)
    && (planar_focal(p) < r_min(p.far@, p.near@) || planar_focal(p) > r_max(p.far@, p.near@))
}
'''


def contracts(unit, im, f):
    name = f.name
    if im is None:
        if f.module != 'projection':
            return None
        if name == 'ortho':
            return Contract(ensures=['ret == m4_ortho(Ortho { left: $0, right: $1, bottom: $2, top: $3, near: $4, far: $5 })'])
        if name == 'frustum':
            return Contract(ensures=['ret == m4_frustum(Perspective { left: $0, right: $1, bottom: $2, top: $3, near: $4, far: $5 })'])
        if name == 'perspective':
            return Contract(ensures=['ret == m4_perspective(PerspectiveFov { fovy: %s, aspect: $1, near: $2, far: $3 })' % unit.to_rad('$0')])
        if name == 'planar':
            return Contract(ensures=['ret == m4_planar(PlanarFov { fovy: %s, aspect: $1, height: $2, near: $3, far: $4 })' % unit.to_rad('$0')])
        return None
    st, _ = base_type(im.selfty)
    tn = trait_name(im.trait)
    ta = trait_args(im.trait).strip()
    if tn == 'From' and st == 'Matrix4':
        if ta == 'Ortho<S>':
            return Contract(ensures=['ret == m4_ortho($0)'], spec='m4_ortho(v)')
        if ta == 'Perspective<S>':
            return Contract(ensures=['valid_frustum($0)', 'ret == m4_frustum($0)'], spec='m4_frustum(v)',
                            variant='panics-iff:!valid_frustum(persp)')
        if ta == 'PerspectiveFov<S>':
            return Contract(ensures=['valid_perspective_fov($0)', 'ret == m4_perspective($0)'], spec='m4_perspective(v)',
                            variant='panics-iff:!valid_perspective_fov(persp)')
        if ta == 'PlanarFov<S>':
            return Contract(ensures=['valid_planar($0)', 'ret == m4_planar($0)'], spec='m4_planar(v)',
                            variant='panics-iff:!valid_planar(persp)')
    if st == 'PerspectiveFov' and tn is None and name == 'to_perspective':
        return Contract(ensures=['ret == fov_to_perspective(*self)'])
    if st in ('Ortho', 'Perspective', 'PerspectiveFov', 'PlanarFov') and tn == 'Clone':
        return Contract(ensures=['ret == *self'])
    return None


def select(unit):
    unit.select(
        Sel('From', r'Matrix4<S>', trait_args=r'(Ortho|Perspective|PerspectiveFov|PlanarFov)<S>'),
        Sel(None, r'PerspectiveFov<S>', ['to_perspective']),
        Sel('Clone', r'(Ortho|Perspective|PerspectiveFov|PlanarFov)<S>'), Sel('Copy', r'(Ortho|Perspective|PerspectiveFov|PlanarFov)<S>'),
    )
    for n in ('perspective', 'frustum', 'ortho', 'planar'):
        unit.free_fns.append(('projection', n))


def laws(F):
    out = []
    tp = F['m4_transform_point3']
    O = R.lit(1)
    # ortho: the box [l,r]x[b,t]x[-n,-f] goes affinely onto the cube, near -> -1, far -> +1
    L = CertLaw('ortho_box', [('o', Ortho)])
    o, = L.vars
    m = F['m4_ortho'](o)
    L.eq(tp(m, P3(o.left, o.bottom, -o.near)), P3(-O, -O, -O))
    L.eq(tp(m, P3(o.right, o.top, -o.far)), P3(O, O, O))
    L.eq(tp(m, P3(o.left, o.top, -o.far)), P3(-O, O, O))
    out.append(L)
    # frustum: near rectangle -> z = -1 face, similar far rectangle -> z = +1 face (after the w divide)
    L = CertLaw('frustum_planes', [('p', Persp)])
    p, = L.vars
    L.require_nonzero(p.near)
    L.require_nonzero(p.far)
    m = F['m4_frustum'](p)
    L.eq(tp(m, P3(p.left, p.bottom, -p.near)), P3(-O, -O, -O))
    L.eq(tp(m, P3(p.right, p.top, -p.near)), P3(O, O, -O))
    k = p.far / p.near
    L.eq(tp(m, P3(p.right * k, p.top * k, -p.far)), P3(O, O, O))
    L.eq(tp(m, P3(p.left * k, p.bottom * k, -p.far)), P3(-O, -O, O))
    out.append(L)
    # perspective == frustum of the symmetric window
    L = CertLaw('perspective_is_frustum', [('p', PFov)])
    p, = L.vars
    L.require_nonzero(p.near)
    L.require_nonzero(p.aspect)
    L.eq(F['m4_perspective'](p), F['m4_frustum'](F['fov_to_perspective'](p)))
    out.append(L)
    # planar: the z = 0 window of height h and width aspect * h goes to [-1,1]^2, z = -n to -1, z = -f to +1 (for every x, y),
    # and the centre of projection (w = 0 on the axis) lies at z = 1 / inv_f = (h / 2) cot(fovy / 2) behind the origin
    two = R.lit(2)
    L = CertLaw('planar_images', [('p', Planar), ('x', R), ('y', R)])
    p, x, y = L.vars
    i = F['planar_inv_f'](p)
    L.require_nonzero(p.aspect)
    L.require_nonzero(p.height)
    L.require_nonzero(p.near - p.far)
    L.require_nonzero(i * p.near + O)
    L.require_nonzero(i * p.far + O)
    m = F['m4_planar'](p)
    hw = p.aspect * p.height / two
    hh = p.height / two
    img = tp(m, P3(hw, hh, R.lit(0)))
    L.eq(img.x, O)
    L.eq(img.y, O)
    img = tp(m, P3(-hw, -hh, R.lit(0)))
    L.eq(img.x, -O)
    L.eq(img.y, -O)
    L.eq(tp(m, P3(x, y, -p.near)).z, -O)
    L.eq(tp(m, P3(x, y, -p.far)).z, O)
    tan = fn1('r_tan', val(p.fovy) / two)
    L.require_nonzero(tan)
    L.eq(O / i, (p.height / two) / tan)
    L.eq(m.z.w * (O / i) + m.w.w, R.lit(0))
    out.append(L)
    return out
