"""Vector family: spec library, contract schemas and law lemmas (C03, shared by C11, C14, C16, C17)."""
import re
from common import *
from sym import R, B, Struct, SpecLib, Law, s_eq, lift, with_spec

XYZW = ['x', 'y', 'z', 'w']


def mk_vec(n):
    return type('V%d' % n, (Struct,), {'TYPE': 'Vector%d<Sc>' % n, 'FIELDS': [(f, R) for f in XYZW[:n]]})


V = {n: mk_vec(n) for n in (1, 2, 3, 4)}
V1, V2, V3, V4 = V[1], V[2], V[3], V[4]


def foldr(op, xs):
    """x0 op (x1 op (x2 ...)) -- the association produced by fold_array!"""
    acc = xs[-1]
    for x in reversed(xs[:-1]):
        acc = op(x, acc)
    return acc


def comps(v):
    return [getattr(v, f) for f, _ in v.FIELDS]


def build(lib: SpecLib):
    """define vN_* spec functions; returns dict name -> python callable"""
    F = {}
    for n in (1, 2, 3, 4):
        T = V[n]
        p = 'v%d' % n
        fs = XYZW[:n]

        def mk(n=n, T=T, p=p, fs=fs):
            F[p + '_new'] = lib.fn(p + '_new', [R] * n, T, argnames=fs)(lambda *a: T(*a))
            F[p + '_from_value'] = lib.fn(p + '_from_value', [R], T, argnames=['s'])(lambda s: T(*([s] * n)))
            F[p + '_zero'] = lib.fn(p + '_zero', [], T)(lambda: T(*([R.lit(0)] * n)))
            for nm, op in (('add', lambda a, b: a + b), ('sub', lambda a, b: a - b), ('mulew', lambda a, b: a * b),
                           ('divew', lambda a, b: a / b), ('remew', lambda a, b: a % b)):
                F['%s_%s' % (p, nm)] = lib.fn('%s_%s' % (p, nm), [T, T], T, argnames=['a', 'b'])(
                    lambda a, b, op=op: T(*[op(x, y) for x, y in zip(comps(a), comps(b))]))
            for nm, op in (('adds', lambda a, b: a + b), ('subs', lambda a, b: a - b), ('scale', lambda a, b: a * b),
                           ('divs', lambda a, b: a / b), ('rems', lambda a, b: a % b)):
                F['%s_%s' % (p, nm)] = lib.fn('%s_%s' % (p, nm), [T, R], T, argnames=['a', 's'])(
                    lambda a, s, op=op: T(*[op(x, s) for x in comps(a)]))
            F[p + '_neg'] = lib.fn(p + '_neg', [T], T, argnames=['a'])(lambda a: T(*[-x for x in comps(a)]))
            F[p + '_sum'] = lib.fn(p + '_sum', [T], R, argnames=['a'])(lambda a: foldr(lambda x, y: x + y, comps(a)))
            F[p + '_product'] = lib.fn(p + '_product', [T], R, argnames=['a'])(lambda a: foldr(lambda x, y: x * y, comps(a)))
            F[p + '_dot'] = lib.fn(p + '_dot', [T, T], R, argnames=['a', 'b'])(
                lambda a, b: F[p + '_sum'](F[p + '_mulew'](a, b)))
            F[p + '_eq'] = lib.fn(p + '_eq', [T, T], B, argnames=['a', 'b'])(
                lambda a, b: foldl_and([s_eq(x, y) for x, y in zip(comps(a), comps(b))]))
            F[p + '_lerp'] = lib.fn(p + '_lerp', [T, T, R], T, argnames=['a', 'b', 't'])(
                lambda a, b, t: F[p + '_add'](a, F[p + '_scale'](F[p + '_sub'](b, a), t)))
        mk()
    F['v3_cross'] = lib.fn('v3_cross', [V3, V3], V3, argnames=['a', 'b'])(
        lambda a, b: V3(a.y * b.z - a.z * b.y, a.z * b.x - a.x * b.z, a.x * b.y - a.y * b.x))
    F['v2_perp_dot'] = lib.fn('v2_perp_dot', [V2, V2], R, argnames=['a', 'b'])(lambda a, b: a.x * b.y - a.y * b.x)
    return F


def foldl_and(bs):
    acc = bs[0]
    for b in bs[1:]:
        acc = acc & b
    return acc


OPSPEC = {'Add': 'add', 'Sub': 'sub'}
SCALSPEC = {'Mul': 'scale', 'Div': 'divs', 'Rem': 'rems'}
EW_V = {'add': 'add', 'sub': 'sub', 'mul': 'mulew', 'div': 'divew', 'rem': 'remew'}
EW_S = {'add': 'adds', 'sub': 'subs', 'mul': 'scale', 'div': 'divs', 'rem': 'rems'}


def contracts(unit, im, f):
    """schema: contract for (impl, fn) of the vector family, or None"""
    if im is None:
        return None
    st, self_ref = base_type(im.selfty)
    if not re.fullmatch(r'Vector[1-4]', st):
        return None
    n = int(st[-1])
    p = 'v%d' % n
    fs = XYZW[:n]
    tn = trait_name(im.trait)
    ta = trait_args(im.trait)
    name = f.name
    selfx = deref('self', self_ref)
    if tn is None:
        if name == 'new':
            return Contract(ensures=['ret == %s_new(%s)' % (p, ', '.join('$%d' % i for i in range(n)))])
        if name.startswith('unit_'):
            k = fs.index(name[-1])
            args = ['s_one()' if i == k else 's_zero()' for i in range(n)]
            return Contract(ensures=['ret == %s_new(%s)' % (p, ', '.join(args))])
        if name == 'perp_dot':
            return Contract(ensures=['ret == v2_perp_dot(self, $1)'])
        if name == 'cross':
            return Contract(ensures=['ret == v3_cross(self, $1)'])
        if name == 'extend':
            last = XYZW[n]
            return Contract(ensures=['ret == v%d_new(%s, %s)' % (n + 1, ', '.join('self.' + x for x in fs), '$1')])
        if name == 'truncate':
            return Contract(ensures=['ret == v%d_new(%s)' % (n - 1, ', '.join('self.' + x for x in fs[:-1]))])
        if name == 'truncate_n':
            cl = []
            for k in range(4):
                keep = [x for i, x in enumerate(fs) if i != k]
                cl.append('$1 == %d ==> ret == v3_new(%s)' % (k, ', '.join('self.' + x for x in keep)))
            return Contract(requires=['0 <= $1 < 4'], ensures=cl)
        return None
    if tn == 'Clone' and name == 'clone':
        return Contract(ensures=['ret == *self'])
    if tn == 'PartialEq' and name == 'eq':
        return Contract(ensures=['ret == %s_eq(*self, *$1)' % p], spec='%s_eq(*self, *rhs)' % p)
    if tn == 'Array':
        if name == 'len':
            return Contract(ensures=['ret == %d' % n])
        if name == 'from_value':
            return Contract(ensures=['ret == %s_from_value($0)' % p])
        if name == 'sum':
            return Contract(ensures=['ret == %s_sum(self)' % p])
        if name == 'product':
            return Contract(ensures=['ret == %s_product(self)' % p])
        return None
    if tn == 'Zero':
        if name == 'zero':
            return Contract(ensures=['ret == %s_zero()' % p])
        if name == 'is_zero':
            return Contract(ensures=['ret == %s_eq(*self, %s_zero())' % (p, p)])
    if tn == 'Neg':
        return Contract(ensures=['ret == %s_neg(%s)' % (p, selfx)], spec='%s_neg(%s)' % (p, selfx))
    if tn in ('Add', 'Sub') and re.search(r'Vector', ta):
        _, rref = base_type(ta)
        sp = '%s_%s' % (p, OPSPEC[tn])
        return Contract(ensures=['ret == %s(%s, %s)' % (sp, selfx, deref('$1', rref))],
                        spec='%s(%s, %s)' % (sp, selfx, deref('rhs', rref)))
    if tn in ('Mul', 'Div', 'Rem') and ta.strip() == 'S':
        sp = '%s_%s' % (p, SCALSPEC[tn])
        return Contract(ensures=['ret == %s(%s, $1)' % (sp, selfx)], spec='%s(%s, rhs)' % (sp, selfx))
    if tn in ('AddAssign', 'SubAssign') and re.search(r'Vector', ta):
        sp = '%s_%s' % (p, OPSPEC[tn[:-6]])
        return Contract(ensures=['*final(self) == %s(*old(self), $1)' % sp], spec='%s(*self, rhs)' % sp)
    if tn in ('MulAssign', 'DivAssign', 'RemAssign') and ta.strip() == 'S':
        sp = '%s_%s' % (p, SCALSPEC[tn[:-6]])
        return Contract(ensures=['*final(self) == %s(*old(self), $1)' % sp], spec='%s(*self, rhs)' % sp)
    if tn == 'ElementWise':
        table = EW_S if ta.strip() == 'S' else EW_V
        m = re.fullmatch(r'(add|sub|mul|div|rem)(_assign)?_element_wise', name)
        if m:
            sp = '%s_%s' % (p, table[m.group(1)])
            if m.group(2):
                return Contract(ensures=['*final(self) == %s(*old(self), $1)' % sp])
            return Contract(ensures=['ret == %s(self, $1)' % sp])
    if tn == 'InnerSpace':
        if name == 'dot':
            return Contract(ensures=['ret == %s_dot(self, $1)' % p])
        if name == 'magnitude2':
            return Contract(ensures=['ret == %s_dot(self, self)' % p])
    if tn == 'MetricSpace' and name == 'distance2':
        return Contract(ensures=['ret == %s_dot(%s_sub($1, self), %s_sub($1, self))' % (p, p, p)])
    if tn == 'VectorSpace' and name == 'lerp':
        return Contract(ensures=['ret == %s_lerp(self, $1, $2)' % p])
    return None


def laws(F):
    """C03 law lemmas (model R)"""
    out = []
    for n in (1, 2, 3, 4):
        T = V[n]
        p = 'v%d' % n
        g = lambda s: F['%s_%s' % (p, s)]
        L = Law('%s_group' % p, [('u', T), ('v', T), ('w', T)])
        u, v, w = L.vars
        L.eq(g('add')(u, v), g('add')(v, u))
        L.eq(g('add')(g('add')(u, v), w), g('add')(u, g('add')(v, w)))
        L.eq(g('add')(u, g('zero')()), u)
        L.eq(g('add')(u, g('neg')(u)), g('zero')())
        L.eq(g('sub')(u, v), g('add')(u, g('neg')(v)))
        out.append(L)
        L = Law('%s_scalar' % p, [('u', T), ('v', T), ('a', R), ('b', R)])
        u, v, a, b = L.vars
        L.eq(g('scale')(g('add')(u, v), a), g('add')(g('scale')(u, a), g('scale')(v, a)))
        L.eq(g('scale')(u, a + b), g('add')(g('scale')(u, a), g('scale')(u, b)))
        L.eq(g('scale')(g('scale')(u, a), b), g('scale')(u, a * b))
        L.eq(g('scale')(u, R.lit(1)), u)
        out.append(L)
        L = Law('%s_dot' % p, [('u', T), ('v', T), ('w', T), ('a', R)])
        u, v, w, a = L.vars
        L.eq(g('dot')(u, v), g('dot')(v, u))
        L.eq(g('dot')(g('add')(u, v), w), g('dot')(u, w) + g('dot')(v, w))
        L.eq(g('dot')(g('scale')(u, a), v), a * g('dot')(u, v))
        cs = comps(u)
        acc = cs[0] * cs[0]
        for c in cs[1:]:
            acc = acc + c * c
        L.eq(g('dot')(u, u), acc)
        s = comps(u)[0]
        pr = comps(u)[0]
        for c in comps(u)[1:]:
            s = s + c
            pr = pr * c
        L.eq(g('sum')(u), s)
        L.eq(g('product')(u), pr)
        out.append(L)
    L = Law('v3_cross', [('u', V3), ('v', V3), ('w', V3)])
    u, v, w = L.vars
    cr, dot, neg, sub, scale = F['v3_cross'], F['v3_dot'], F['v3_neg'], F['v3_sub'], F['v3_scale']
    L.eq(cr(u, v), neg(cr(v, u)))
    L.eq(dot(cr(u, v), u), R.lit(0))
    L.eq(dot(cr(u, v), v), R.lit(0))
    L.eq(dot(cr(u, v), cr(u, v)), dot(u, u) * dot(v, v) - dot(u, v) * dot(u, v))
    L.eq(cr(u, cr(v, w)), sub(scale(v, dot(u, w)), scale(w, dot(u, v))))
    out.append(L)
    L = Law('v2_perp_dot', [('u', V2), ('v', V2)])
    u, v = L.vars
    L.eq(F['v2_perp_dot'](u, v), u.x * v.y - u.y * v.x)
    L.eq(F['v2_perp_dot'](u, v), -F['v2_perp_dot'](v, u))
    out.append(L)
    return out


VEC = r"(&'[a-z]+ )?Vector[1-4]<S>"


def select_c03(unit):
    unit.select(
        Sel(None, r'Vector[1-4]<S>', ['new', 'unit_x', 'unit_y', 'unit_z', 'unit_w', 'perp_dot', 'cross', 'extend', 'truncate', 'truncate_n']),
        Sel('Clone', VEC), Sel('Copy', VEC), Sel('PartialEq', VEC, ['eq']),
        Sel('Array', VEC, ['len', 'from_value', 'sum', 'product']),
        Sel('Zero', VEC), Sel('Neg', VEC),
        Sel('Add', VEC), Sel('Sub', VEC),
        Sel('Mul', VEC, trait_args='S'), Sel('Div', VEC, trait_args='S'), Sel('Rem', VEC, trait_args='S'),
        Sel('AddAssign', VEC), Sel('SubAssign', VEC), Sel('MulAssign', VEC), Sel('DivAssign', VEC), Sel('RemAssign', VEC),
        Sel('ElementWise', VEC),
        Sel('InnerSpace', VEC, ['dot', 'magnitude2']),
        Sel('VectorSpace', VEC, ['lerp']),
        Sel('MetricSpace', VEC, ['distance2']),
    )
