// prelude_N: num_traits::NumCast as an uninterpreted partial function (external crate; declaration TRUSTED).
// Nothing is assumed of the scalar cast: cast_spec is an arbitrary function from the source value to Option<target>.
#![allow(unused_imports, dead_code, unused_variables, non_snake_case, unused_parens, unused_mut, unused_braces)]
use vstd::prelude::*;
verus! {
pub trait ToPrimitive: Sized {}
pub trait NumCast: Sized + ToPrimitive {
    spec fn cast_spec<S>(n: S) -> Option<Self>;
    fn from<S: ToPrimitive>(n: S) -> (r: Option<Self>)
        ensures r == Self::cast_spec(n);
}
pub trait BaseFloat: NumCast {}
// num_traits::cast(n) is NumCast::from(n)
#[verifier::external_body] pub fn cast<T: NumCast, U: NumCast>(n: T) -> (r: Option<U>) ensures r == U::cast_spec(n) { unimplemented!() }
#[verifier::external_body] pub fn vpanic() -> ! requires false { loop {} }
} // verus!
