"""Shared helpers for contract schemas."""
import re
import sys, os
sys.path.insert(0, os.path.join(os.path.dirname(os.path.abspath(__file__)), '..', 'tools'))
from emit import Contract, Sel, trait_name, trait_args
from extract import OP_TRAITS

FIELDS = {
    'Vector1': ['x'], 'Vector2': ['x', 'y'], 'Vector3': ['x', 'y', 'z'], 'Vector4': ['x', 'y', 'z', 'w'],
    'Point1': ['x'], 'Point2': ['x', 'y'], 'Point3': ['x', 'y', 'z'],
    'Matrix2': ['x', 'y'], 'Matrix3': ['x', 'y', 'z'], 'Matrix4': ['x', 'y', 'z', 'w'],
}
PFX = {'Vector1': 'v1', 'Vector2': 'v2', 'Vector3': 'v3', 'Vector4': 'v4',
       'Point1': 'p1', 'Point2': 'p2', 'Point3': 'p3',
       'Matrix2': 'm2', 'Matrix3': 'm3', 'Matrix4': 'm4', 'Quaternion': 'q'}

BINOPS = {'add': 's_add', 'sub': 's_sub', 'mul': 's_mul', 'div': 's_div', 'rem': 's_rem'}


def base_type(ty):
    """'&'a Vector3<S>' -> ('Vector3', True)"""
    ty = ty.strip()
    ref = ty.startswith('&')
    ty = re.sub(r"^&\s*('[a-z_]+\s+)?(mut\s+)?", '', ty)
    m = re.match(r'([A-Za-z_][A-Za-z0-9_]*)', ty)
    return m.group(1), ref


def deref(name, is_ref):
    return '*' + name if is_ref else name
