"""Point family: spec library, contract schema and law lemmas (C12; used by C01, C08, C11)."""
import re
from common import *
from sym import R, B, Struct, SpecLib, Law, s_eq, lift
from c_vector import V, XYZW, comps, foldr, foldl_and, EW_V, EW_S


def mk_pt(n):
    return type('P%d' % n, (Struct,), {'TYPE': 'Point%d<Sc>' % n, 'FIELDS': [(f, R) for f in XYZW[:n]]})


P = {n: mk_pt(n) for n in (1, 2, 3)}


def build(lib: SpecLib, F):
    for n in (1, 2, 3):
        T, VT = P[n], V[n]
        p = 'p%d' % n
        fs = XYZW[:n]

        def mk(n=n, T=T, VT=VT, p=p, fs=fs):
            F[p + '_new'] = lib.fn(p + '_new', [R] * n, T, argnames=fs)(lambda *a: T(*a))
            F[p + '_from_value'] = lib.fn(p + '_from_value', [R], T, argnames=['s'])(lambda s: T(*([s] * n)))
            F[p + '_origin'] = lib.fn(p + '_origin', [], T)(lambda: T(*([R.lit(0)] * n)))
            F[p + '_from_vec'] = lib.fn(p + '_from_vec', [VT], T, argnames=['v'])(lambda v: T(*comps(v)))
            F[p + '_to_vec'] = lib.fn(p + '_to_vec', [T], VT, argnames=['a'])(lambda a: VT(*comps(a)))
            F[p + '_addv'] = lib.fn(p + '_addv', [T, VT], T, argnames=['a', 'v'])(lambda a, v: T(*[x + y for x, y in zip(comps(a), comps(v))]))
            F[p + '_subv'] = lib.fn(p + '_subv', [T, VT], T, argnames=['a', 'v'])(lambda a, v: T(*[x - y for x, y in zip(comps(a), comps(v))]))
            F[p + '_sub'] = lib.fn(p + '_sub', [T, T], VT, argnames=['a', 'b'])(lambda a, b: VT(*[x - y for x, y in zip(comps(a), comps(b))]))
            for nm, op in (('add', lambda a, b: a + b), ('subew', lambda a, b: a - b), ('mulew', lambda a, b: a * b),
                           ('divew', lambda a, b: a / b), ('remew', lambda a, b: a % b)):
                F['%s_%s' % (p, nm)] = lib.fn('%s_%s' % (p, nm), [T, T], T, argnames=['a', 'b'])(
                    lambda a, b, op=op: T(*[op(x, y) for x, y in zip(comps(a), comps(b))]))
            for nm, op in (('adds', lambda a, b: a + b), ('subs', lambda a, b: a - b), ('scale', lambda a, b: a * b),
                           ('divs', lambda a, b: a / b), ('rems', lambda a, b: a % b)):
                F['%s_%s' % (p, nm)] = lib.fn('%s_%s' % (p, nm), [T, R], T, argnames=['a', 's'])(
                    lambda a, s, op=op: T(*[op(x, s) for x in comps(a)]))
            F[p + '_sum'] = lib.fn(p + '_sum', [T], R, argnames=['a'])(lambda a: foldr(lambda x, y: x + y, comps(a)))
            F[p + '_product'] = lib.fn(p + '_product', [T], R, argnames=['a'])(lambda a: foldr(lambda x, y: x * y, comps(a)))
            F[p + '_dot'] = lib.fn(p + '_dot', [T, VT], R, argnames=['a', 'v'])(
                lambda a, v: foldr(lambda x, y: x + y, [x * y for x, y in zip(comps(a), comps(v))]))
            F[p + '_eq'] = lib.fn(p + '_eq', [T, T], B, argnames=['a', 'b'])(
                lambda a, b: foldl_and([s_eq(x, y) for x, y in zip(comps(a), comps(b))]))
            F[p + '_midpoint'] = lib.fn(p + '_midpoint', [T, T], T, argnames=['a', 'b'])(
                lambda a, b: F[p + '_addv'](a, F['v%d_divs' % n](F[p + '_sub'](b, a), R.lit(1) + R.lit(1))))
            F[p + '_distance2'] = lib.fn(p + '_distance2', [T, T], R, argnames=['a', 'b'])(
                lambda a, b: F['v%d_dot' % n](F[p + '_sub'](b, a), F[p + '_sub'](b, a)))
        mk()
    P3, V4, V3 = P[3], V[4], V[3]
    F['p3_to_homogeneous'] = lib.fn('p3_to_homogeneous', [P3], V4, argnames=['a'])(lambda a: V4(a.x, a.y, a.z, R.lit(1)))
    F['p3_from_homogeneous'] = lib.fn('p3_from_homogeneous', [V4], P3, argnames=['v'])(
        lambda v: P3(*[c * (R.lit(1) / v.w) for c in (v.x, v.y, v.z)]))
    return F


def contracts(unit, im, f):
    if im is None:
        return None
    st, self_ref = base_type(im.selfty)
    if not re.fullmatch(r'Point[1-3]', st):
        return None
    n = int(st[-1])
    p = 'p%d' % n
    vp = 'v%d' % n
    fs = XYZW[:n]
    tn = trait_name(im.trait)
    ta = trait_args(im.trait)
    name = f.name
    selfx = deref('self', self_ref)
    if tn is None:
        if name == 'new':
            return Contract(ensures=['ret == %s_new(%s)' % (p, ', '.join('$%d' % i for i in range(n)))])
        if name == 'to_homogeneous':
            return Contract(ensures=['ret == p3_to_homogeneous(self)'])
        if name == 'from_homogeneous':
            return Contract(ensures=['ret == p3_from_homogeneous($0)'])
        return None
    if tn == 'Clone' and name == 'clone':
        return Contract(ensures=['ret == *self'])
    if tn == 'PartialEq' and name == 'eq':
        return Contract(ensures=['ret == %s_eq(*self, *$1)' % p], spec='%s_eq(*self, *rhs)' % p)
    if tn == 'Array':
        d = {'len': 'ret == %d' % n, 'from_value': 'ret == %s_from_value($0)' % p,
             'sum': 'ret == %s_sum(self)' % p, 'product': 'ret == %s_product(self)' % p}
        if name in d:
            return Contract(ensures=[d[name]])
        return None
    if tn == 'EuclideanSpace':
        d = {'origin': 'ret == %s_origin()' % p, 'from_vec': 'ret == %s_from_vec($0)' % p,
             'to_vec': 'ret == %s_to_vec(self)' % p, 'dot': 'ret == %s_dot(self, $1)' % p,
             'midpoint': 'ret == %s_midpoint(self, $1)' % p}
        if name in d:
            return Contract(ensures=[d[name]])
        return None
    if tn == 'MetricSpace' and name == 'distance2':
        return Contract(ensures=['ret == %s_distance2(self, $1)' % p])
    if tn in ('Add', 'Sub') and re.search(r'Vector', ta):
        _, rref = base_type(ta)
        sp = '%s_%s' % (p, {'Add': 'addv', 'Sub': 'subv'}[tn])
        return Contract(ensures=['ret == %s(%s, %s)' % (sp, selfx, deref('$1', rref))],
                        spec='%s(%s, %s)' % (sp, selfx, deref('rhs', rref)))
    if tn == 'Sub' and re.search(r'Point', ta):
        _, rref = base_type(ta)
        return Contract(ensures=['ret == %s_sub(%s, %s)' % (p, selfx, deref('$1', rref))],
                        spec='%s_sub(%s, %s)' % (p, selfx, deref('rhs', rref)))
    if tn in ('Mul', 'Div', 'Rem') and ta.strip() == 'S':
        sp = '%s_%s' % (p, {'Mul': 'scale', 'Div': 'divs', 'Rem': 'rems'}[tn])
        return Contract(ensures=['ret == %s(%s, $1)' % (sp, selfx)], spec='%s(%s, rhs)' % (sp, selfx))
    if tn in ('AddAssign', 'SubAssign') and re.search(r'Vector', ta):
        sp = '%s_%s' % (p, {'Add': 'addv', 'Sub': 'subv'}[tn[:-6]])
        return Contract(ensures=['*final(self) == %s(*old(self), $1)' % sp], spec='%s(*self, rhs)' % sp)
    if tn in ('MulAssign', 'DivAssign', 'RemAssign') and ta.strip() == 'S':
        sp = '%s_%s' % (p, {'Mul': 'scale', 'Div': 'divs', 'Rem': 'rems'}[tn[:-6]])
        return Contract(ensures=['*final(self) == %s(*old(self), $1)' % sp], spec='%s(*self, rhs)' % sp)
    if tn == 'ElementWise':
        table = EW_S if ta.strip() == 'S' else {'add': 'add', 'sub': 'subew', 'mul': 'mulew', 'div': 'divew', 'rem': 'remew'}
        m = re.fullmatch(r'(add|sub|mul|div|rem)(_assign)?_element_wise', name)
        if m:
            sp = '%s_%s' % (p, table[m.group(1)])
            if m.group(2):
                return Contract(ensures=['*final(self) == %s(*old(self), $1)' % sp])
            return Contract(ensures=['ret == %s(self, $1)' % sp])
    return None


def laws(F):
    out = []
    for n in (1, 2, 3):
        T, VT = P[n], V[n]
        p, vp = 'p%d' % n, 'v%d' % n
        g = lambda s: F['%s_%s' % (p, s)]
        gv = lambda s: F['%s_%s' % (vp, s)]
        L = Law('%s_affine' % p, [('p', T), ('q', T), ('v', VT), ('w', VT), ('a', R)])
        pp, q, v, w, a = L.vars
        L.eq(g('sub')(g('addv')(pp, v), pp), v)
        L.eq(g('addv')(pp, g('sub')(q, pp)), q)
        L.eq(g('addv')(g('addv')(pp, v), w), g('addv')(pp, gv('add')(v, w)))
        L.eq(g('subv')(pp, v), g('addv')(pp, gv('neg')(v)))
        L.eq(g('from_vec')(g('to_vec')(pp)), pp)
        L.eq(g('to_vec')(g('from_vec')(v)), v)
        L.eq(g('to_vec')(g('origin')()), gv('zero')())
        cs, vs = comps(pp), comps(v)
        acc = cs[0] * vs[0]
        for x, y in zip(cs[1:], vs[1:]):
            acc = acc + x * y
        L.eq(g('dot')(pp, v), acc)
        # midpoint = p + (q - p)/2 by definition of the spec function; also symmetric form
        L.eq(g('midpoint')(pp, q), g('addv')(pp, gv('divs')(g('sub')(q, pp), R.lit(2))))
        out.append(L)
    # homogeneous round trip: from_homogeneous(k * to_homogeneous(p)) == p for k != 0
    P3, V4 = P[3], V[4]
    L = Law('p3_homogeneous', [('p', P3), ('k', R)])
    pp, k = L.vars
    L.require_flat('k@ != 0real', 'k != 0real')
    L.steps.append('k * (1real / k) == 1real')
    L.steps.append('(k * 1real) == k')
    L.eq(F['p3_from_homogeneous'](F['v4_scale'](F['p3_to_homogeneous'](pp), k)), pp)
    out.append(L)
    return out


PT = r"(&'[a-z]+ )?Point[1-3]<S>"


def select_c12(unit):
    unit.select(
        Sel(None, r'Point[1-3]<S>', ['new', 'to_homogeneous', 'from_homogeneous']),
        Sel('Clone', PT), Sel('Copy', PT), Sel('PartialEq', PT, ['eq']),
        Sel('Array', PT, ['len', 'from_value', 'sum', 'product']),
        Sel('Add', PT), Sel('Sub', PT),
        Sel('Mul', PT, trait_args='S'), Sel('Div', PT, trait_args='S'), Sel('Rem', PT, trait_args='S'),
        Sel('AddAssign', PT), Sel('SubAssign', PT), Sel('MulAssign', PT), Sel('DivAssign', PT), Sel('RemAssign', PT),
        Sel('ElementWise', PT),
        Sel('EuclideanSpace', PT, ['origin', 'from_vec', 'to_vec', 'dot', 'midpoint']),
        Sel('MetricSpace', PT, ['distance2']),
    )
