"""Approximate equality and predicates test every component (C18).
The scalar comparisons are uninterpreted predicates (s_abs_diff_eq, s_relative_eq, s_ulps_eq), so the contracts hold for
whatever the scalar type's comparison is; a dropped or duplicated clause cannot equal the full conjunction."""
import re
from common import *

XYZW = 'xyzw'
TYPES = {}   # rust type name (base) -> (prefix, verus type, [(field, fieldtype base | 'S')])
for n in (1, 2, 3, 4):
    TYPES['Vector%d' % n] = ('v%d' % n, 'Vector%d<Sc>' % n, [(f, 'S') for f in XYZW[:n]])
for n in (1, 2, 3):
    TYPES['Point%d' % n] = ('p%d' % n, 'Point%d<Sc>' % n, [(f, 'S') for f in XYZW[:n]])
for n in (2, 3, 4):
    TYPES['Matrix%d' % n] = ('m%d' % n, 'Matrix%d<Sc>' % n, [(f, 'Vector%d' % n) for f in XYZW[:n]])
TYPES['Quaternion'] = ('q', 'Quaternion<Sc>', [('s', 'S'), ('v', 'Vector3')])
TYPES['Rad'] = ('rad', 'Rad<Sc>', [('0', 'S')])
TYPES['Deg'] = ('deg', 'Deg<Sc>', [('0', 'S')])
TYPES['Euler'] = ('euler', 'Euler<Rad<Sc>>', [('x', 'Rad'), ('y', 'Rad'), ('z', 'Rad')])
TYPES['Basis2'] = ('b2', 'Basis2<Sc>', [('mat', 'Matrix2')])
TYPES['Basis3'] = ('b3', 'Basis3<Sc>', [('mat', 'Matrix3')])
TYPES['Decomposed'] = ('dec', 'Decomposed<Vector3<Sc>, Quaternion<Sc>>', [('scale', 'S'), ('rot', 'Quaternion'), ('disp', 'Vector3')])

KINDS = {'abs_diff_eq': ('eps: Sc', 'eps'), 'relative_eq': ('eps: Sc, mr: Sc', 'eps, mr'), 'ulps_eq': ('eps: Sc, mu: u32', 'eps, mu')}


def text_specs():
    out = []
    for name, (p, T, fields) in TYPES.items():
        for kind, (params, args) in KINDS.items():
            conj = ' && '.join(('s_%s(a.%s, b.%s, %s)' % (kind, f, f, args)) if ft == 'S' else ('%s_%s(a.%s, b.%s, %s)' % (TYPES[ft][0], kind, f, f, args))
                               for f, ft in fields)
            out.append('pub open spec fn %s_%s(a: %s, b: %s, %s) -> bool { %s }\n' % (p, kind, T, T, params, conj))
        fin = ' && '.join(('r_finite(a.%s@)' % f) if ft == 'S' else ('%s_is_finite(a.%s)' % (TYPES[ft][0], f)) for f, ft in fields)
        out.append('pub open spec fn %s_is_finite(a: %s) -> bool { %s }\n' % (p, T, fin))
        eps = 's_lit(1real / 1000000real)' if name.startswith('Matrix') else 's_default_epsilon()'
        out.append('pub open spec fn %s_default_epsilon() -> Sc { %s }\n' % (p, eps))
        # rule R13: the approx builder with default options forwards to the type's comparison with the type's default tolerances
        out.append(('impl ApproxModel for %s {\n    open spec fn ulps_eq_default_spec(a: Self, b: Self) -> bool { %s_ulps_eq(a, b, %s_default_epsilon(), s_default_max_ulps()) }\n'
                    '    open spec fn abs_diff_eq_default_spec(a: Self, b: Self) -> bool { %s_abs_diff_eq(a, b, %s_default_epsilon()) }\n}\n') % (T, p, p, p, p))
    return ''.join(out)


def contracts(unit, im, f):
    if im is None:
        return None
    st, self_ref = base_type(im.selfty)
    tn = trait_name(im.trait)
    name = f.name
    if st not in TYPES:
        return None
    p, T, fields = TYPES[st]
    if tn in ('AbsDiffEq', 'RelativeEq', 'UlpsEq'):
        d = {'default_epsilon': 'ret == %s_default_epsilon()' % p, 'default_max_relative': 'ret == s_default_max_relative()',
             'default_max_ulps': 'ret == s_default_max_ulps()',
             'abs_diff_eq': 'ret == %s_abs_diff_eq(*self, *$1, $2)' % p, 'relative_eq': 'ret == %s_relative_eq(*self, *$1, $2, $3)' % p,
             'ulps_eq': 'ret == %s_ulps_eq(*self, *$1, $2, $3)' % p}
        if name in d:
            return Contract(ensures=[d[name]])
    if name == 'is_finite' and (tn in (None, 'Array')):
        return Contract(ensures=['ret == %s_is_finite(*self)' % p])
    if tn == 'Zero' and name == 'is_zero' and not re.match(r'Vector', st):
        zero = {'q': 'q_zero()', 'rad': 'rad_zero()', 'deg': 'deg_zero()'}.get(p, '%s_zero()' % p)
        return Contract(ensures=['ret == <%s as ApproxModel>::ulps_eq_default_spec(*self, %s)' % (T, zero)])
    if tn == 'SquareMatrix' and re.match(r'Matrix', st):
        n = int(st[-1])
        offd = [(c, r) for c in range(n) for r in range(n) if c != r]
        if name == 'is_identity':
            return Contract(ensures=['ret == <%s as ApproxModel>::ulps_eq_default_spec(*self, %s_identity())' % (T, p)])
        if name == 'is_invertible':
            return Contract(ensures=['ret == !s_ulps_eq_default(%s_det(*self), s_zero())' % p])
        if name == 'is_diagonal':
            return Contract(ensures=['ret == (%s)' % ' && '.join('s_ulps_eq_default(self.%s.%s, s_zero())' % (XYZW[c], XYZW[r]) for c, r in offd)])
        if name == 'is_symmetric':
            return Contract(ensures=['ret == (%s)' % ' && '.join('s_ulps_eq_default(self.%s.%s, self.%s.%s)' % (XYZW[c], XYZW[r], XYZW[r], XYZW[c]) for c, r in offd)])
    return None


def predicate_contracts(unit, im, f):
    """the SquareMatrix predicates whose contracts need nothing of the approx family (available in every unit's base)"""
    if im is not None and trait_name(im.trait) == 'SquareMatrix' and f.name in ('is_invertible', 'is_diagonal', 'is_symmetric'):
        return contracts(unit, im, f)
    return None


APX = r"(approx::)?(AbsDiffEq|RelativeEq|UlpsEq)"


def select(unit):
    tys = r"(Vector[1-4]|Point[1-3]|Matrix[2-4]|Quaternion|Rad|Deg|Basis[23])<S>"
    for t in ('AbsDiffEq', 'RelativeEq', 'UlpsEq'):
        unit.select(Sel(t, tys), Sel(t, r'Euler<A>'), Sel(t, r'Decomposed<S, R>'))
    unit.select(
        Sel(None, r'(Matrix[2-4]|Quaternion)<S>', ['is_finite']),
        Sel('Array', r'(Vector[1-4]|Point[1-3])<S>', ['is_finite']),
        Sel('Zero', r'(Matrix[2-4]|Quaternion|Rad|Deg)<S>', ['is_zero']),
        Sel('SquareMatrix', r'Matrix[2-4]<S>', ['is_identity', 'is_invertible', 'is_diagonal', 'is_symmetric']),
    )


def handwritten():
    t = '''
// reflexivity and symmetry of the compound relations follow from the scalar's (every clause is a scalar comparison of one component pair)
pub proof fn law_m4_ulps_refl_sym(a: Matrix4<Sc>, b: Matrix4<Sc>, eps: Sc, mu: u32)
    requires forall|x: Sc| #[trigger] s_ulps_eq(x, x, eps, mu), forall|x: Sc, y: Sc| #[trigger] s_ulps_eq(x, y, eps, mu) == s_ulps_eq(y, x, eps, mu)
    ensures m4_ulps_eq(a, a, eps, mu), m4_ulps_eq(a, b, eps, mu) == m4_ulps_eq(b, a, eps, mu),
{}
// a difference in one single component beyond tolerance makes the compound values unequal
pub proof fn law_m4_one_component(a: Matrix4<Sc>, b: Matrix4<Sc>, eps: Sc)
    requires !s_abs_diff_eq(a.z.y, b.z.y, eps)
    ensures !m4_abs_diff_eq(a, b, eps),
{}
pub proof fn law_dec_one_component(a: Decomposed<Vector3<Sc>, Quaternion<Sc>>, b: Decomposed<Vector3<Sc>, Quaternion<Sc>>, eps: Sc, mr: Sc)
    requires !s_relative_eq(a.rot.v.z, b.rot.v.z, eps, mr)
    ensures !dec_relative_eq(a, b, eps, mr),
{}
'''
    return t
