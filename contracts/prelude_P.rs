// prelude_P: one opaque model scalar per primitive type (rule R1 applied per type).  TRUSTED.
// Nothing is assumed of a primitive operation but that it is a function of its operands (uninterpreted pm_*),
// so overflow panics, wrapping, NaN and % are all covered.
#![allow(unused_imports, dead_code, unused_variables, non_snake_case, non_camel_case_types, unused_parens, unused_mut, unused_braces)]
use vstd::prelude::*;
use vstd::std_specs::ops::*;
use core::ops::*;
verus! {
pub struct P_usize { pub g: Ghost<int> }
impl Clone for P_usize { #[verifier::external_body] fn clone(&self) -> (r: P_usize) ensures r == *self { unimplemented!() } }
impl Copy for P_usize {}
pub uninterp spec fn pm_mul_usize(a: P_usize, b: P_usize) -> P_usize;
impl MulSpecImpl for P_usize { open spec fn obeys_mul_spec() -> bool { true } open spec fn mul_req(self, rhs: P_usize) -> bool { true } open spec fn mul_spec(self, rhs: P_usize) -> P_usize { pm_mul_usize(self, rhs) } }
impl Mul for P_usize { type Output = P_usize; #[verifier::external_body] fn mul(self, rhs: P_usize) -> P_usize { unimplemented!() } }
pub uninterp spec fn pm_div_usize(a: P_usize, b: P_usize) -> P_usize;
impl DivSpecImpl for P_usize { open spec fn obeys_div_spec() -> bool { true } open spec fn div_req(self, rhs: P_usize) -> bool { true } open spec fn div_spec(self, rhs: P_usize) -> P_usize { pm_div_usize(self, rhs) } }
impl Div for P_usize { type Output = P_usize; #[verifier::external_body] fn div(self, rhs: P_usize) -> P_usize { unimplemented!() } }
pub uninterp spec fn pm_rem_usize(a: P_usize, b: P_usize) -> P_usize;
impl RemSpecImpl for P_usize { open spec fn obeys_rem_spec() -> bool { true } open spec fn rem_req(self, rhs: P_usize) -> bool { true } open spec fn rem_spec(self, rhs: P_usize) -> P_usize { pm_rem_usize(self, rhs) } }
impl Rem for P_usize { type Output = P_usize; #[verifier::external_body] fn rem(self, rhs: P_usize) -> P_usize { unimplemented!() } }
pub struct P_u8 { pub g: Ghost<int> }
impl Clone for P_u8 { #[verifier::external_body] fn clone(&self) -> (r: P_u8) ensures r == *self { unimplemented!() } }
impl Copy for P_u8 {}
pub uninterp spec fn pm_mul_u8(a: P_u8, b: P_u8) -> P_u8;
impl MulSpecImpl for P_u8 { open spec fn obeys_mul_spec() -> bool { true } open spec fn mul_req(self, rhs: P_u8) -> bool { true } open spec fn mul_spec(self, rhs: P_u8) -> P_u8 { pm_mul_u8(self, rhs) } }
impl Mul for P_u8 { type Output = P_u8; #[verifier::external_body] fn mul(self, rhs: P_u8) -> P_u8 { unimplemented!() } }
pub uninterp spec fn pm_div_u8(a: P_u8, b: P_u8) -> P_u8;
impl DivSpecImpl for P_u8 { open spec fn obeys_div_spec() -> bool { true } open spec fn div_req(self, rhs: P_u8) -> bool { true } open spec fn div_spec(self, rhs: P_u8) -> P_u8 { pm_div_u8(self, rhs) } }
impl Div for P_u8 { type Output = P_u8; #[verifier::external_body] fn div(self, rhs: P_u8) -> P_u8 { unimplemented!() } }
pub uninterp spec fn pm_rem_u8(a: P_u8, b: P_u8) -> P_u8;
impl RemSpecImpl for P_u8 { open spec fn obeys_rem_spec() -> bool { true } open spec fn rem_req(self, rhs: P_u8) -> bool { true } open spec fn rem_spec(self, rhs: P_u8) -> P_u8 { pm_rem_u8(self, rhs) } }
impl Rem for P_u8 { type Output = P_u8; #[verifier::external_body] fn rem(self, rhs: P_u8) -> P_u8 { unimplemented!() } }
pub struct P_u16 { pub g: Ghost<int> }
impl Clone for P_u16 { #[verifier::external_body] fn clone(&self) -> (r: P_u16) ensures r == *self { unimplemented!() } }
impl Copy for P_u16 {}
pub uninterp spec fn pm_mul_u16(a: P_u16, b: P_u16) -> P_u16;
impl MulSpecImpl for P_u16 { open spec fn obeys_mul_spec() -> bool { true } open spec fn mul_req(self, rhs: P_u16) -> bool { true } open spec fn mul_spec(self, rhs: P_u16) -> P_u16 { pm_mul_u16(self, rhs) } }
impl Mul for P_u16 { type Output = P_u16; #[verifier::external_body] fn mul(self, rhs: P_u16) -> P_u16 { unimplemented!() } }
pub uninterp spec fn pm_div_u16(a: P_u16, b: P_u16) -> P_u16;
impl DivSpecImpl for P_u16 { open spec fn obeys_div_spec() -> bool { true } open spec fn div_req(self, rhs: P_u16) -> bool { true } open spec fn div_spec(self, rhs: P_u16) -> P_u16 { pm_div_u16(self, rhs) } }
impl Div for P_u16 { type Output = P_u16; #[verifier::external_body] fn div(self, rhs: P_u16) -> P_u16 { unimplemented!() } }
pub uninterp spec fn pm_rem_u16(a: P_u16, b: P_u16) -> P_u16;
impl RemSpecImpl for P_u16 { open spec fn obeys_rem_spec() -> bool { true } open spec fn rem_req(self, rhs: P_u16) -> bool { true } open spec fn rem_spec(self, rhs: P_u16) -> P_u16 { pm_rem_u16(self, rhs) } }
impl Rem for P_u16 { type Output = P_u16; #[verifier::external_body] fn rem(self, rhs: P_u16) -> P_u16 { unimplemented!() } }
pub struct P_u32 { pub g: Ghost<int> }
impl Clone for P_u32 { #[verifier::external_body] fn clone(&self) -> (r: P_u32) ensures r == *self { unimplemented!() } }
impl Copy for P_u32 {}
pub uninterp spec fn pm_mul_u32(a: P_u32, b: P_u32) -> P_u32;
impl MulSpecImpl for P_u32 { open spec fn obeys_mul_spec() -> bool { true } open spec fn mul_req(self, rhs: P_u32) -> bool { true } open spec fn mul_spec(self, rhs: P_u32) -> P_u32 { pm_mul_u32(self, rhs) } }
impl Mul for P_u32 { type Output = P_u32; #[verifier::external_body] fn mul(self, rhs: P_u32) -> P_u32 { unimplemented!() } }
pub uninterp spec fn pm_div_u32(a: P_u32, b: P_u32) -> P_u32;
impl DivSpecImpl for P_u32 { open spec fn obeys_div_spec() -> bool { true } open spec fn div_req(self, rhs: P_u32) -> bool { true } open spec fn div_spec(self, rhs: P_u32) -> P_u32 { pm_div_u32(self, rhs) } }
impl Div for P_u32 { type Output = P_u32; #[verifier::external_body] fn div(self, rhs: P_u32) -> P_u32 { unimplemented!() } }
pub uninterp spec fn pm_rem_u32(a: P_u32, b: P_u32) -> P_u32;
impl RemSpecImpl for P_u32 { open spec fn obeys_rem_spec() -> bool { true } open spec fn rem_req(self, rhs: P_u32) -> bool { true } open spec fn rem_spec(self, rhs: P_u32) -> P_u32 { pm_rem_u32(self, rhs) } }
impl Rem for P_u32 { type Output = P_u32; #[verifier::external_body] fn rem(self, rhs: P_u32) -> P_u32 { unimplemented!() } }
pub struct P_u64 { pub g: Ghost<int> }
impl Clone for P_u64 { #[verifier::external_body] fn clone(&self) -> (r: P_u64) ensures r == *self { unimplemented!() } }
impl Copy for P_u64 {}
pub uninterp spec fn pm_mul_u64(a: P_u64, b: P_u64) -> P_u64;
impl MulSpecImpl for P_u64 { open spec fn obeys_mul_spec() -> bool { true } open spec fn mul_req(self, rhs: P_u64) -> bool { true } open spec fn mul_spec(self, rhs: P_u64) -> P_u64 { pm_mul_u64(self, rhs) } }
impl Mul for P_u64 { type Output = P_u64; #[verifier::external_body] fn mul(self, rhs: P_u64) -> P_u64 { unimplemented!() } }
pub uninterp spec fn pm_div_u64(a: P_u64, b: P_u64) -> P_u64;
impl DivSpecImpl for P_u64 { open spec fn obeys_div_spec() -> bool { true } open spec fn div_req(self, rhs: P_u64) -> bool { true } open spec fn div_spec(self, rhs: P_u64) -> P_u64 { pm_div_u64(self, rhs) } }
impl Div for P_u64 { type Output = P_u64; #[verifier::external_body] fn div(self, rhs: P_u64) -> P_u64 { unimplemented!() } }
pub uninterp spec fn pm_rem_u64(a: P_u64, b: P_u64) -> P_u64;
impl RemSpecImpl for P_u64 { open spec fn obeys_rem_spec() -> bool { true } open spec fn rem_req(self, rhs: P_u64) -> bool { true } open spec fn rem_spec(self, rhs: P_u64) -> P_u64 { pm_rem_u64(self, rhs) } }
impl Rem for P_u64 { type Output = P_u64; #[verifier::external_body] fn rem(self, rhs: P_u64) -> P_u64 { unimplemented!() } }
pub struct P_isize { pub g: Ghost<int> }
impl Clone for P_isize { #[verifier::external_body] fn clone(&self) -> (r: P_isize) ensures r == *self { unimplemented!() } }
impl Copy for P_isize {}
pub uninterp spec fn pm_mul_isize(a: P_isize, b: P_isize) -> P_isize;
impl MulSpecImpl for P_isize { open spec fn obeys_mul_spec() -> bool { true } open spec fn mul_req(self, rhs: P_isize) -> bool { true } open spec fn mul_spec(self, rhs: P_isize) -> P_isize { pm_mul_isize(self, rhs) } }
impl Mul for P_isize { type Output = P_isize; #[verifier::external_body] fn mul(self, rhs: P_isize) -> P_isize { unimplemented!() } }
pub uninterp spec fn pm_div_isize(a: P_isize, b: P_isize) -> P_isize;
impl DivSpecImpl for P_isize { open spec fn obeys_div_spec() -> bool { true } open spec fn div_req(self, rhs: P_isize) -> bool { true } open spec fn div_spec(self, rhs: P_isize) -> P_isize { pm_div_isize(self, rhs) } }
impl Div for P_isize { type Output = P_isize; #[verifier::external_body] fn div(self, rhs: P_isize) -> P_isize { unimplemented!() } }
pub uninterp spec fn pm_rem_isize(a: P_isize, b: P_isize) -> P_isize;
impl RemSpecImpl for P_isize { open spec fn obeys_rem_spec() -> bool { true } open spec fn rem_req(self, rhs: P_isize) -> bool { true } open spec fn rem_spec(self, rhs: P_isize) -> P_isize { pm_rem_isize(self, rhs) } }
impl Rem for P_isize { type Output = P_isize; #[verifier::external_body] fn rem(self, rhs: P_isize) -> P_isize { unimplemented!() } }
pub struct P_i8 { pub g: Ghost<int> }
impl Clone for P_i8 { #[verifier::external_body] fn clone(&self) -> (r: P_i8) ensures r == *self { unimplemented!() } }
impl Copy for P_i8 {}
pub uninterp spec fn pm_mul_i8(a: P_i8, b: P_i8) -> P_i8;
impl MulSpecImpl for P_i8 { open spec fn obeys_mul_spec() -> bool { true } open spec fn mul_req(self, rhs: P_i8) -> bool { true } open spec fn mul_spec(self, rhs: P_i8) -> P_i8 { pm_mul_i8(self, rhs) } }
impl Mul for P_i8 { type Output = P_i8; #[verifier::external_body] fn mul(self, rhs: P_i8) -> P_i8 { unimplemented!() } }
pub uninterp spec fn pm_div_i8(a: P_i8, b: P_i8) -> P_i8;
impl DivSpecImpl for P_i8 { open spec fn obeys_div_spec() -> bool { true } open spec fn div_req(self, rhs: P_i8) -> bool { true } open spec fn div_spec(self, rhs: P_i8) -> P_i8 { pm_div_i8(self, rhs) } }
impl Div for P_i8 { type Output = P_i8; #[verifier::external_body] fn div(self, rhs: P_i8) -> P_i8 { unimplemented!() } }
pub uninterp spec fn pm_rem_i8(a: P_i8, b: P_i8) -> P_i8;
impl RemSpecImpl for P_i8 { open spec fn obeys_rem_spec() -> bool { true } open spec fn rem_req(self, rhs: P_i8) -> bool { true } open spec fn rem_spec(self, rhs: P_i8) -> P_i8 { pm_rem_i8(self, rhs) } }
impl Rem for P_i8 { type Output = P_i8; #[verifier::external_body] fn rem(self, rhs: P_i8) -> P_i8 { unimplemented!() } }
pub struct P_i16 { pub g: Ghost<int> }
impl Clone for P_i16 { #[verifier::external_body] fn clone(&self) -> (r: P_i16) ensures r == *self { unimplemented!() } }
impl Copy for P_i16 {}
pub uninterp spec fn pm_mul_i16(a: P_i16, b: P_i16) -> P_i16;
impl MulSpecImpl for P_i16 { open spec fn obeys_mul_spec() -> bool { true } open spec fn mul_req(self, rhs: P_i16) -> bool { true } open spec fn mul_spec(self, rhs: P_i16) -> P_i16 { pm_mul_i16(self, rhs) } }
impl Mul for P_i16 { type Output = P_i16; #[verifier::external_body] fn mul(self, rhs: P_i16) -> P_i16 { unimplemented!() } }
pub uninterp spec fn pm_div_i16(a: P_i16, b: P_i16) -> P_i16;
impl DivSpecImpl for P_i16 { open spec fn obeys_div_spec() -> bool { true } open spec fn div_req(self, rhs: P_i16) -> bool { true } open spec fn div_spec(self, rhs: P_i16) -> P_i16 { pm_div_i16(self, rhs) } }
impl Div for P_i16 { type Output = P_i16; #[verifier::external_body] fn div(self, rhs: P_i16) -> P_i16 { unimplemented!() } }
pub uninterp spec fn pm_rem_i16(a: P_i16, b: P_i16) -> P_i16;
impl RemSpecImpl for P_i16 { open spec fn obeys_rem_spec() -> bool { true } open spec fn rem_req(self, rhs: P_i16) -> bool { true } open spec fn rem_spec(self, rhs: P_i16) -> P_i16 { pm_rem_i16(self, rhs) } }
impl Rem for P_i16 { type Output = P_i16; #[verifier::external_body] fn rem(self, rhs: P_i16) -> P_i16 { unimplemented!() } }
pub struct P_i32 { pub g: Ghost<int> }
impl Clone for P_i32 { #[verifier::external_body] fn clone(&self) -> (r: P_i32) ensures r == *self { unimplemented!() } }
impl Copy for P_i32 {}
pub uninterp spec fn pm_mul_i32(a: P_i32, b: P_i32) -> P_i32;
impl MulSpecImpl for P_i32 { open spec fn obeys_mul_spec() -> bool { true } open spec fn mul_req(self, rhs: P_i32) -> bool { true } open spec fn mul_spec(self, rhs: P_i32) -> P_i32 { pm_mul_i32(self, rhs) } }
impl Mul for P_i32 { type Output = P_i32; #[verifier::external_body] fn mul(self, rhs: P_i32) -> P_i32 { unimplemented!() } }
pub uninterp spec fn pm_div_i32(a: P_i32, b: P_i32) -> P_i32;
impl DivSpecImpl for P_i32 { open spec fn obeys_div_spec() -> bool { true } open spec fn div_req(self, rhs: P_i32) -> bool { true } open spec fn div_spec(self, rhs: P_i32) -> P_i32 { pm_div_i32(self, rhs) } }
impl Div for P_i32 { type Output = P_i32; #[verifier::external_body] fn div(self, rhs: P_i32) -> P_i32 { unimplemented!() } }
pub uninterp spec fn pm_rem_i32(a: P_i32, b: P_i32) -> P_i32;
impl RemSpecImpl for P_i32 { open spec fn obeys_rem_spec() -> bool { true } open spec fn rem_req(self, rhs: P_i32) -> bool { true } open spec fn rem_spec(self, rhs: P_i32) -> P_i32 { pm_rem_i32(self, rhs) } }
impl Rem for P_i32 { type Output = P_i32; #[verifier::external_body] fn rem(self, rhs: P_i32) -> P_i32 { unimplemented!() } }
pub struct P_i64 { pub g: Ghost<int> }
impl Clone for P_i64 { #[verifier::external_body] fn clone(&self) -> (r: P_i64) ensures r == *self { unimplemented!() } }
impl Copy for P_i64 {}
pub uninterp spec fn pm_mul_i64(a: P_i64, b: P_i64) -> P_i64;
impl MulSpecImpl for P_i64 { open spec fn obeys_mul_spec() -> bool { true } open spec fn mul_req(self, rhs: P_i64) -> bool { true } open spec fn mul_spec(self, rhs: P_i64) -> P_i64 { pm_mul_i64(self, rhs) } }
impl Mul for P_i64 { type Output = P_i64; #[verifier::external_body] fn mul(self, rhs: P_i64) -> P_i64 { unimplemented!() } }
pub uninterp spec fn pm_div_i64(a: P_i64, b: P_i64) -> P_i64;
impl DivSpecImpl for P_i64 { open spec fn obeys_div_spec() -> bool { true } open spec fn div_req(self, rhs: P_i64) -> bool { true } open spec fn div_spec(self, rhs: P_i64) -> P_i64 { pm_div_i64(self, rhs) } }
impl Div for P_i64 { type Output = P_i64; #[verifier::external_body] fn div(self, rhs: P_i64) -> P_i64 { unimplemented!() } }
pub uninterp spec fn pm_rem_i64(a: P_i64, b: P_i64) -> P_i64;
impl RemSpecImpl for P_i64 { open spec fn obeys_rem_spec() -> bool { true } open spec fn rem_req(self, rhs: P_i64) -> bool { true } open spec fn rem_spec(self, rhs: P_i64) -> P_i64 { pm_rem_i64(self, rhs) } }
impl Rem for P_i64 { type Output = P_i64; #[verifier::external_body] fn rem(self, rhs: P_i64) -> P_i64 { unimplemented!() } }
pub struct P_f32 { pub g: Ghost<int> }
impl Clone for P_f32 { #[verifier::external_body] fn clone(&self) -> (r: P_f32) ensures r == *self { unimplemented!() } }
impl Copy for P_f32 {}
pub uninterp spec fn pm_mul_f32(a: P_f32, b: P_f32) -> P_f32;
impl MulSpecImpl for P_f32 { open spec fn obeys_mul_spec() -> bool { true } open spec fn mul_req(self, rhs: P_f32) -> bool { true } open spec fn mul_spec(self, rhs: P_f32) -> P_f32 { pm_mul_f32(self, rhs) } }
impl Mul for P_f32 { type Output = P_f32; #[verifier::external_body] fn mul(self, rhs: P_f32) -> P_f32 { unimplemented!() } }
pub uninterp spec fn pm_div_f32(a: P_f32, b: P_f32) -> P_f32;
impl DivSpecImpl for P_f32 { open spec fn obeys_div_spec() -> bool { true } open spec fn div_req(self, rhs: P_f32) -> bool { true } open spec fn div_spec(self, rhs: P_f32) -> P_f32 { pm_div_f32(self, rhs) } }
impl Div for P_f32 { type Output = P_f32; #[verifier::external_body] fn div(self, rhs: P_f32) -> P_f32 { unimplemented!() } }
pub uninterp spec fn pm_rem_f32(a: P_f32, b: P_f32) -> P_f32;
impl RemSpecImpl for P_f32 { open spec fn obeys_rem_spec() -> bool { true } open spec fn rem_req(self, rhs: P_f32) -> bool { true } open spec fn rem_spec(self, rhs: P_f32) -> P_f32 { pm_rem_f32(self, rhs) } }
impl Rem for P_f32 { type Output = P_f32; #[verifier::external_body] fn rem(self, rhs: P_f32) -> P_f32 { unimplemented!() } }
pub struct P_f64 { pub g: Ghost<int> }
impl Clone for P_f64 { #[verifier::external_body] fn clone(&self) -> (r: P_f64) ensures r == *self { unimplemented!() } }
impl Copy for P_f64 {}
pub uninterp spec fn pm_mul_f64(a: P_f64, b: P_f64) -> P_f64;
impl MulSpecImpl for P_f64 { open spec fn obeys_mul_spec() -> bool { true } open spec fn mul_req(self, rhs: P_f64) -> bool { true } open spec fn mul_spec(self, rhs: P_f64) -> P_f64 { pm_mul_f64(self, rhs) } }
impl Mul for P_f64 { type Output = P_f64; #[verifier::external_body] fn mul(self, rhs: P_f64) -> P_f64 { unimplemented!() } }
pub uninterp spec fn pm_div_f64(a: P_f64, b: P_f64) -> P_f64;
impl DivSpecImpl for P_f64 { open spec fn obeys_div_spec() -> bool { true } open spec fn div_req(self, rhs: P_f64) -> bool { true } open spec fn div_spec(self, rhs: P_f64) -> P_f64 { pm_div_f64(self, rhs) } }
impl Div for P_f64 { type Output = P_f64; #[verifier::external_body] fn div(self, rhs: P_f64) -> P_f64 { unimplemented!() } }
pub uninterp spec fn pm_rem_f64(a: P_f64, b: P_f64) -> P_f64;
impl RemSpecImpl for P_f64 { open spec fn obeys_rem_spec() -> bool { true } open spec fn rem_req(self, rhs: P_f64) -> bool { true } open spec fn rem_spec(self, rhs: P_f64) -> P_f64 { pm_rem_f64(self, rhs) } }
impl Rem for P_f64 { type Output = P_f64; #[verifier::external_body] fn rem(self, rhs: P_f64) -> P_f64 { unimplemented!() } }
#[verifier::external_body] pub fn vpanic() -> ! requires false { loop {} }
} // verus!
