"""Quaternion family: spec library, contracts and law lemmas (C04; used by C05-C08, C14, C15)."""
import re
from common import *
from sym import R, B, Struct, SpecLib, Law, CertLaw, s_eq, lift
from c_vector import V, XYZW, comps, foldr, foldl_and

V3 = V[3]


class Q(Struct):
    TYPE = 'Quaternion<Sc>'
    FIELDS = [('v', V3), ('s', R)]


def qcomps(q):
    """(s, x, y, z) = coefficients of 1, i, j, k"""
    return [q.s, q.v.x, q.v.y, q.v.z]


# Hamilton's multiplication table: basis index 0=1, 1=i, 2=j, 3=k ; e_a * e_b = sign * e_c
def basis_mul(a, b):
    if a == 0:
        return 1, b
    if b == 0:
        return 1, a
    if a == b:
        return -1, 0
    # ij=k, jk=i, ki=j and the reversed products are negated
    cyc = {(1, 2): 3, (2, 3): 1, (3, 1): 2}
    if (a, b) in cyc:
        return 1, cyc[(a, b)]
    return -1, cyc[(b, a)]


def hamilton(a, b):
    ac, bc = qcomps(a), qcomps(b)
    out = [None] * 4
    for i in range(4):
        for j in range(4):
            sg, k = basis_mul(i, j)
            term = ac[i] * bc[j]
            if out[k] is None:
                assert sg == 1
                out[k] = term
            elif sg == 1:
                out[k] = out[k] + term
            else:
                out[k] = out[k] - term
    return Q(V3(out[1], out[2], out[3]), out[0])


def build(lib: SpecLib, F):
    F['q_from_sv'] = lib.fn('q_from_sv', [R, V3], Q, argnames=['s', 'v'])(lambda s, v: Q(v, s))
    F['q_new'] = lib.fn('q_new', [R, R, R, R], Q, argnames=['w', 'xi', 'yj', 'zk'])(lambda w, xi, yj, zk: Q(V3(xi, yj, zk), w))
    F['q_zero'] = lib.fn('q_zero', [], Q)(lambda: Q(F['v3_zero'](), R.lit(0)))
    F['q_one'] = lib.fn('q_one', [], Q)(lambda: Q(F['v3_zero'](), R.lit(1)))
    F['q_add'] = lib.fn('q_add', [Q, Q], Q, argnames=['a', 'b'])(lambda a, b: Q(F['v3_add'](a.v, b.v), a.s + b.s))
    F['q_sub'] = lib.fn('q_sub', [Q, Q], Q, argnames=['a', 'b'])(lambda a, b: Q(F['v3_sub'](a.v, b.v), a.s - b.s))
    F['q_neg'] = lib.fn('q_neg', [Q], Q, argnames=['a'])(lambda a: Q(F['v3_neg'](a.v), -a.s))
    F['q_scale'] = lib.fn('q_scale', [Q, R], Q, argnames=['a', 't'])(lambda a, t: Q(F['v3_scale'](a.v, t), a.s * t))
    F['q_divs'] = lib.fn('q_divs', [Q, R], Q, argnames=['a', 't'])(lambda a, t: Q(F['v3_divs'](a.v, t), a.s / t))
    F['q_rems'] = lib.fn('q_rems', [Q, R], Q, argnames=['a', 't'])(lambda a, t: Q(F['v3_rems'](a.v, t), a.s % t))
    F['q_conj'] = lib.fn('q_conj', [Q], Q, argnames=['a'])(lambda a: Q(F['v3_neg'](a.v), a.s))
    F['q_mul'] = lib.fn('q_mul', [Q, Q], Q, argnames=['a', 'b'])(hamilton)
    F['q_dot'] = lib.fn('q_dot', [Q, Q], R, argnames=['a', 'b'])(lambda a, b: a.s * b.s + F['v3_dot'](a.v, b.v))
    F['q_magnitude2'] = lib.fn('q_magnitude2', [Q], R, argnames=['a'])(lambda a: F['q_dot'](a, a))
    # q*v = v + 2 qv x (qv x v + s v)   (the property's formula)
    F['q_rotv'] = lib.fn('q_rotv', [Q, V3], V3, argnames=['q', 'v'])(
        lambda q, v: F['v3_add'](F['v3_scale'](F['v3_cross'](q.v, F['v3_add'](F['v3_cross'](q.v, v), F['v3_scale'](v, q.s))), R.lit(2)), v))
    F['q_invert'] = lib.fn('q_invert', [Q], Q, argnames=['q'])(lambda q: F['q_divs'](F['q_conj'](q), F['q_magnitude2'](q)))
    F['q_eq'] = lib.fn('q_eq', [Q, Q], B, argnames=['a', 'b'])(lambda a, b: F['v3_eq'](a.v, b.v) & s_eq(a.s, b.s))
    F['q_lerp'] = lib.fn('q_lerp', [Q, Q, R], Q, argnames=['a', 'b', 't'])(
        lambda a, b, t: F['q_add'](a, F['q_scale'](F['q_sub'](b, a), t)))
    return F


QT = r"(&'[a-z]+ )?Quaternion<S>"


def contracts(unit, im, f):
    if im is None:
        return None
    st, self_ref = base_type(im.selfty)
    if st != 'Quaternion':
        return None
    tn = trait_name(im.trait)
    ta = trait_args(im.trait)
    name = f.name
    selfx = deref('self', self_ref)
    if tn is None:
        d = {'new': 'ret == q_new($0, $1, $2, $3)', 'from_sv': 'ret == q_from_sv($0, $1)', 'conjugate': 'ret == q_conj(self)'}
        if name in d:
            return Contract(ensures=[d[name]])
        return None
    if tn == 'Clone' and name == 'clone':
        return Contract(ensures=['ret == *self'])
    if tn == 'PartialEq' and name == 'eq':
        return Contract(ensures=['ret == q_eq(*self, *$1)'], spec='q_eq(*self, *rhs)')
    if tn == 'Zero' and name == 'zero':
        return Contract(ensures=['ret == q_zero()'])
    if tn == 'One' and name == 'one':
        return Contract(ensures=['ret == q_one()'])
    if tn == 'VectorSpace' and name == 'lerp':
        return Contract(ensures=['ret == q_lerp(self, $1, $2)'])
    if tn == 'MetricSpace' and name == 'distance2':
        return Contract(ensures=['ret == q_magnitude2(q_sub($1, self))'])
    if tn == 'InnerSpace':
        if name == 'dot':
            return Contract(ensures=['ret == q_dot(self, $1)'])
        if name == 'magnitude2':
            return Contract(ensures=['ret == q_magnitude2(self)'])
        return None
    if tn == 'Neg':
        return Contract(ensures=['ret == q_neg(%s)' % selfx], spec='q_neg(%s)' % selfx)
    if tn in ('Add', 'Sub') and 'Quaternion' in ta:
        _, rref = base_type(ta)
        sp = 'q_' + tn.lower()
        return Contract(ensures=['ret == %s(%s, %s)' % (sp, selfx, deref('$1', rref))], spec='%s(%s, %s)' % (sp, selfx, deref('rhs', rref)))
    if tn in ('AddAssign', 'SubAssign') and 'Quaternion' in ta:
        sp = 'q_' + tn[:3].lower()
        return Contract(ensures=['*final(self) == %s(*old(self), $1)' % sp], spec='%s(*self, rhs)' % sp)
    if tn in ('Mul', 'Div', 'Rem') and ta.strip() == 'S':
        sp = 'q_' + {'Mul': 'scale', 'Div': 'divs', 'Rem': 'rems'}[tn]
        return Contract(ensures=['ret == %s(%s, $1)' % (sp, selfx)], spec='%s(%s, rhs)' % (sp, selfx))
    if tn in ('MulAssign', 'DivAssign', 'RemAssign') and ta.strip() == 'S':
        sp = 'q_' + {'Mul': 'scale', 'Div': 'divs', 'Rem': 'rems'}[tn[:-6]]
        return Contract(ensures=['*final(self) == %s(*old(self), $1)' % sp], spec='%s(*self, rhs)' % sp)
    if tn == 'Mul' and 'Quaternion' in ta:
        _, rref = base_type(ta)
        return Contract(ensures=['ret == q_mul(%s, %s)' % (selfx, deref('$1', rref))], spec='q_mul(%s, %s)' % (selfx, deref('rhs', rref)))
    if tn == 'Mul' and 'Vector3' in ta:
        _, rref = base_type(ta)
        return Contract(ensures=['ret == q_rotv(%s, %s)' % (selfx, deref('$1', rref))], spec='q_rotv(%s, %s)' % (selfx, deref('rhs', rref)))
    if tn == 'Rotation':
        d = {'rotate_vector': 'ret == q_rotv(*self, $1)', 'invert': 'ret == q_invert(*self)',
             'rotate_point': 'ret == p3_from_vec(q_rotv(*self, p3_to_vec($1)))'}
        if name in d:
            return Contract(ensures=[d[name]])
    return None


def select_c04(unit):
    unit.select(
        Sel(None, r'Quaternion<S>', ['new', 'from_sv', 'conjugate']),
        Sel('Clone', QT), Sel('Copy', QT), Sel('PartialEq', QT, ['eq']),
        Sel('Zero', QT, ['zero']), Sel('One', QT),
        Sel('VectorSpace', QT, ['lerp']), Sel('MetricSpace', QT, ['distance2']),
        Sel('InnerSpace', QT, ['dot', 'magnitude2']),
        Sel('Neg', QT), Sel('Add', QT), Sel('Sub', QT), Sel('Mul', QT), Sel('Div', QT), Sel('Rem', QT),
        Sel('AddAssign', QT), Sel('SubAssign', QT), Sel('MulAssign', QT), Sel('DivAssign', QT), Sel('RemAssign', QT),
        Sel('Rotation', QT, ['rotate_vector', 'invert', 'rotate_point']),
    )


def norm2(q):
    return q.s * q.s + q.v.x * q.v.x + q.v.y * q.v.y + q.v.z * q.v.z


def laws(F):
    out = []
    mul, add, conj, mag2, one, rotv, scale = F['q_mul'], F['q_add'], F['q_conj'], F['q_magnitude2'], F['q_one'], F['q_rotv'], F['q_scale']
    L = Law('q_ring', [('p', Q), ('q', Q), ('r', Q)])
    p, q, r = L.vars
    L.eq(mul(mul(p, q), r), mul(p, mul(q, r)))
    L.eq(mul(p, add(q, r)), add(mul(p, q), mul(p, r)))
    L.eq(mul(add(p, q), r), add(mul(p, r), mul(q, r)))
    L.eq(mul(one(), p), p)
    L.eq(mul(p, one()), p)
    L.eq(conj(mul(p, q)), mul(conj(q), conj(p)))
    L.eq(mag2(mul(p, q)), mag2(p) * mag2(q))
    L.eq(mag2(p), p.s * p.s + p.v.x * p.v.x + p.v.y * p.v.y + p.v.z * p.v.z)
    L.eq(mag2(conj(p)), mag2(p))
    out.append(L)
    # i^2 = j^2 = k^2 = ijk = -1 : the table the spec was generated from, re-checked as a law
    L = Law('q_hamilton', [])
    i_, j_, k_ = (Q(V3(1, 0, 0), 0), Q(V3(0, 1, 0), 0), Q(V3(0, 0, 1), 0))
    m1 = Q(V3(0, 0, 0), -R.lit(1))
    L.eq(mul(i_, i_), m1)
    L.eq(mul(j_, j_), m1)
    L.eq(mul(k_, k_), m1)
    L.eq(mul(mul(i_, j_), k_), m1)
    L.eq(mul(i_, j_), k_)
    out.append(L)
    # q*v is the vector part of q (0,v) conj(q) scaled ... for unit q exactly; for all q: q(0,v)q^* = |q|^2-weighted form
    L = CertLaw('q_sandwich', [('q', Q), ('v', V3)])
    q, v = L.vars
    L.require_eq(mag2(q), R.lit(1))
    sw = mul(mul(q, Q(v, R.lit(0))), conj(q))
    L.eq(Q(rotv(q, v), R.lit(0)), sw)
    out.append(L)
    L = CertLaw('q_inverse', [('q', Q)])
    q, = L.vars
    L.eq(mul(q, F['q_invert'](q)), one())
    L.eq(mul(F['q_invert'](q), q), one())
    out.append(L)
    return out


def handwritten_laws():
    """laws derived by composing the proved ones (pass A only)"""
    return '''
pub open spec fn q_pure(v: Vector3<Sc>) -> Quaternion<Sc> { Quaternion { v: v, s: s_zero() } }
// |q * v| = |v| for unit q: from the sandwich law and the multiplicativity of the norm
pub proof fn law_q_length(q: Quaternion<Sc>, v: Vector3<Sc>)
    requires q_magnitude2(q)@ == 1real
    ensures v3_dot(q_rotv(q, v), q_rotv(q, v))@ == v3_dot(v, v)@,
{
    let pv = q_pure(v);
    let w = q_pure(q_rotv(q, v));
    law_q_sandwich(q, v);
    assert(w == q_mul(q_mul(q, pv), q_conj(q)));
    law_q_ring(q_mul(q, pv), q_conj(q), q);
    law_q_ring(q, pv, q);
    law_q_ring(q, q, q);
    let a = q_magnitude2(q)@;
    let b = q_magnitude2(pv)@;
    assert(q_magnitude2(w)@ == (a * b) * a);
    assert((a * b) * a == b) by(nonlinear_arith) requires a == 1real;
    assert(q_magnitude2(w)@ == 0real * 0real + v3_dot(q_rotv(q, v), q_rotv(q, v))@);
    assert(q_magnitude2(pv)@ == 0real * 0real + v3_dot(v, v)@);
}
// (p * q) * v = p * (q * v) for unit p, q: sandwich law three times, associativity, conj(pq) = conj q conj p
pub proof fn law_q_action(p: Quaternion<Sc>, q: Quaternion<Sc>, v: Vector3<Sc>)
    requires q_magnitude2(p)@ == 1real, q_magnitude2(q)@ == 1real
    ensures q_rotv(q_mul(p, q), v) == q_rotv(p, q_rotv(q, v)),
{
    let pq = q_mul(p, q);
    let pv = q_pure(v);
    let cp = q_conj(p);
    let cq = q_conj(q);
    let rv = q_rotv(q, v);
    law_q_ring(p, q, q);                       // |pq|^2 = |p|^2 |q|^2, conj(pq) = cq cp
    assert(q_magnitude2(pq)@ == q_magnitude2(p)@ * q_magnitude2(q)@);
    assert(q_magnitude2(p)@ * q_magnitude2(q)@ == 1real) by(nonlinear_arith) requires q_magnitude2(p)@ == 1real, q_magnitude2(q)@ == 1real;
    law_q_sandwich(pq, v);                     // (rotv(pq, v), 0) = (pq) pv conj(pq)
    law_q_sandwich(q, v);                      // (rv, 0) = (q pv) cq
    law_q_sandwich(p, rv);                     // (rotv(p, rv), 0) = (p (rv,0)) cp
    assert(q_conj(pq) == q_mul(cq, cp));
    law_q_ring(p, q, pv);                      // (p q) pv = p (q pv)
    law_q_ring(p, q_mul(q, pv), q_mul(cq, cp));   // (p (q pv)) (cq cp) = p ((q pv) (cq cp))
    law_q_ring(q_mul(q, pv), cq, cp);          // ((q pv) cq) cp = (q pv) (cq cp)
    law_q_ring(p, q_pure(rv), cp);             // (p (rv,0)) cp = p ((rv,0) cp)
    assert(q_pure(q_rotv(pq, v)) == q_pure(q_rotv(p, rv)));
}
'''
