"""Matrix family: spec library, contracts and law lemmas (C01, C02; used by C05-C09)."""
import itertools
import re
from common import *
from sym import R, B, Struct, SpecLib, Law, s_eq, lift
from c_vector import V, XYZW, comps, foldr, foldl_and
from c_point import P


def mk_mat(n):
    return type('M%d' % n, (Struct,), {'TYPE': 'Matrix%d<Sc>' % n, 'FIELDS': [(f, V[n]) for f in XYZW[:n]]})


M = {n: mk_mat(n) for n in (2, 3, 4)}


def cols(m):
    return [getattr(m, f) for f, _ in m.FIELDS]


def at(m, c, r):
    return getattr(getattr(m, XYZW[c]), XYZW[r])


def perm_sign(p):
    s = 1
    p = list(p)
    for i in range(len(p)):
        for j in range(i + 1, len(p)):
            if p[i] > p[j]:
                s = -s
    return s


def leibniz(m, n):
    """sum over permutations sigma of sgn(sigma) * prod_c a[c][sigma(c)]"""
    acc = None
    for p in itertools.permutations(range(n)):
        term = at(m, 0, p[0])
        for c in range(1, n):
            term = term * at(m, c, p[c])
        if acc is None:
            assert perm_sign(p) == 1
            acc = term
        elif perm_sign(p) == 1:
            acc = acc + term
        else:
            acc = acc - term
    return acc


def idx_specs():
    """int-indexed accessors (text; not expressible in the symbolic layer)"""
    out = []
    for n in (1, 2, 3, 4):
        fs = XYZW[:n]
        body = ' else '.join(['if i == %d { v.%s }' % (k, f) for k, f in enumerate(fs[:-1])] + ['{ v.%s }' % fs[-1]])
        out.append('pub open spec fn v%d_idx(v: Vector%d<Sc>, i: int) -> Sc { %s }\n' % (n, n, body))
    for n in (2, 3, 4):
        fs = XYZW[:n]
        body = ' else '.join(['if i == %d { m.%s }' % (k, f) for k, f in enumerate(fs[:-1])] + ['{ m.%s }' % fs[-1]])
        out.append('pub open spec fn m%d_col(m: Matrix%d<Sc>, i: int) -> Vector%d<Sc> { %s }\n' % (n, n, n, body))
        out.append('pub open spec fn m%d_at(m: Matrix%d<Sc>, c: int, r: int) -> Sc { v%d_idx(m%d_col(m, c), r) }\n' % (n, n, n, n))
        out.append('pub open spec fn m%d_row(m: Matrix%d<Sc>, r: int) -> Vector%d<Sc> { Vector%d { %s } }\n' % (
            n, n, n, n, ', '.join('%s: v%d_idx(m.%s, r)' % (f, n, f) for f in fs)))
    return ''.join(out)


def layout_prelude(with_flat16=True):
    """A5: trusted contracts of Index / AsRef (the transmute-based impls proved by the C16 Kani harnesses)."""
    out = ['verus! {\n// ---- A5: layout contracts assumed here, proved on the real code by the C16 Kani harnesses\n']
    for n in (1, 2, 3, 4):
        out.append('impl IndexSpecImpl<usize> for Vector%d<Sc> { open spec fn index_req(&self, i: &usize) -> bool { *i < %d } }\n' % (n, n))
        out.append('impl Index<usize> for Vector%d<Sc> { type Output = Sc; #[verifier::external_body] fn index(&self, i: usize) -> (r: &Sc) ensures *r == v%d_idx(*self, i as int) { unimplemented!() } }\n' % (n, n))
    for n in (2, 3, 4):
        out.append('impl IndexSpecImpl<usize> for Matrix%d<Sc> { open spec fn index_req(&self, i: &usize) -> bool { *i < %d } }\n' % (n, n))
        out.append('impl Index<usize> for Matrix%d<Sc> { type Output = Vector%d<Sc>; #[verifier::external_body] fn index(&self, i: usize) -> (r: &Vector%d<Sc>) ensures *r == m%d_col(*self, i as int) { unimplemented!() } }\n' % (n, n, n, n))
    if with_flat16:
        ens = ', '.join('r@[%d] == self.%s.%s' % (4 * c + r, XYZW[c], XYZW[r]) for c in range(4) for r in range(4))
        out.append('impl AsRef<[Sc; 16]> for Matrix4<Sc> { #[verifier::external_body] fn as_ref(&self) -> (r: &[Sc; 16]) ensures %s { unimplemented!() } }\n' % ens)
    out.append('} // verus!\n')
    return ''.join(out)


def build(lib: SpecLib, F):
    for n in (2, 3, 4):
        T, VT = M[n], V[n]
        p, vp = 'm%d' % n, 'v%d' % n
        fs = XYZW[:n]

        def mk(n=n, T=T, VT=VT, p=p, vp=vp, fs=fs):
            gv = lambda s: F['%s_%s' % (vp, s)]
            F[p + '_from_cols'] = lib.fn(p + '_from_cols', [VT] * n, T, argnames=['c%d' % i for i in range(n)])(lambda *c: T(*c))
            names = ['c%dr%d' % (c, r) for c in range(n) for r in range(n)]
            F[p + '_new'] = lib.fn(p + '_new', [R] * (n * n), T, argnames=names)(
                lambda *a: T(*[VT(*a[c * n:(c + 1) * n]) for c in range(n)]))
            F[p + '_zero'] = lib.fn(p + '_zero', [], T)(lambda: T(*[VT(*([R.lit(0)] * n)) for _ in range(n)]))
            F[p + '_from_value'] = lib.fn(p + '_from_value', [R], T, argnames=['s'])(
                lambda s: T(*[VT(*[s if r == c else R.lit(0) for r in range(n)]) for c in range(n)]))
            F[p + '_from_diagonal'] = lib.fn(p + '_from_diagonal', [VT], T, argnames=['d'])(
                lambda d: T(*[VT(*[comps(d)[c] if r == c else R.lit(0) for r in range(n)]) for c in range(n)]))
            F[p + '_identity'] = lib.fn(p + '_identity', [], T)(lambda: F[p + '_from_value'](R.lit(1)))
            F[p + '_diagonal'] = lib.fn(p + '_diagonal', [T], VT, argnames=['m'])(lambda m: VT(*[at(m, i, i) for i in range(n)]))
            F[p + '_trace'] = lib.fn(p + '_trace', [T], R, argnames=['m'])(lambda m: gv('sum')(F[p + '_diagonal'](m)))
            F[p + '_transpose'] = lib.fn(p + '_transpose', [T], T, argnames=['m'])(
                lambda m: T(*[VT(*[at(m, r, c) for r in range(n)]) for c in range(n)]))
            for nm in ('add', 'sub'):
                F['%s_%s' % (p, nm)] = lib.fn('%s_%s' % (p, nm), [T, T], T, argnames=['a', 'b'])(
                    lambda a, b, nm=nm: T(*[gv(nm)(x, y) for x, y in zip(cols(a), cols(b))]))
            F[p + '_neg'] = lib.fn(p + '_neg', [T], T, argnames=['a'])(lambda a: T(*[gv('neg')(x) for x in cols(a)]))
            for nm in ('scale', 'divs', 'rems'):
                F['%s_%s' % (p, nm)] = lib.fn('%s_%s' % (p, nm), [T, R], T, argnames=['a', 's'])(
                    lambda a, s, nm=nm: T(*[gv(nm)(x, s) for x in cols(a)]))

            def mulv(a, v):
                acc = gv('scale')(cols(a)[0], comps(v)[0])
                for c in range(1, n):
                    acc = gv('add')(acc, gv('scale')(cols(a)[c], comps(v)[c]))
                return acc
            F[p + '_mulv'] = lib.fn(p + '_mulv', [T, VT], VT, argnames=['a', 'v'])(mulv)
            F[p + '_mul'] = lib.fn(p + '_mul', [T, T], T, argnames=['a', 'b'])(
                lambda a, b: T(*[F[p + '_mulv'](a, c) for c in cols(b)]))
            F[p + '_det'] = lib.fn(p + '_det', [T], R, argnames=['m'])(lambda m: leibniz(m, n))
            F[p + '_eq'] = lib.fn(p + '_eq', [T, T], B, argnames=['a', 'b'])(
                lambda a, b: foldl_and([gv('eq')(x, y) for x, y in zip(cols(a), cols(b))]))
            F[p + '_lerp'] = lib.fn(p + '_lerp', [T, T, R], T, argnames=['a', 'b', 't'])(
                lambda a, b, t: F[p + '_add'](a, F[p + '_scale'](F[p + '_sub'](b, a), t)))
        mk()
    M2, M3, M4 = M[2], M[3], M[4]
    V2, V3, V4 = V[2], V[3], V[4]
    Z, O = R.lit(0), R.lit(1)
    # constructors: action = scale by the factors, displace by the offset (vectors are not displaced)
    F['m3_from_translation'] = lib.fn('m3_from_translation', [V2], M3, argnames=['v'])(
        lambda v: M3(V3(O, Z, Z), V3(Z, O, Z), V3(v.x, v.y, O)))
    F['m4_from_translation'] = lib.fn('m4_from_translation', [V3], M4, argnames=['v'])(
        lambda v: M4(V4(O, Z, Z, Z), V4(Z, O, Z, Z), V4(Z, Z, O, Z), V4(v.x, v.y, v.z, O)))
    F['m3_from_nonuniform_scale'] = lib.fn('m3_from_nonuniform_scale', [R, R], M3, argnames=['x', 'y'])(
        lambda x, y: M3(V3(x, Z, Z), V3(Z, y, Z), V3(Z, Z, O)))
    F['m4_from_nonuniform_scale'] = lib.fn('m4_from_nonuniform_scale', [R, R, R], M4, argnames=['x', 'y', 'z'])(
        lambda x, y, z: M4(V4(x, Z, Z, Z), V4(Z, y, Z, Z), V4(Z, Z, z, Z), V4(Z, Z, Z, O)))
    # embeddings
    F['m3_from_m2'] = lib.fn('m3_from_m2', [M2], M3, argnames=['m'])(
        lambda m: M3(V3(at(m, 0, 0), at(m, 0, 1), Z), V3(at(m, 1, 0), at(m, 1, 1), Z), V3(Z, Z, O)))
    F['m4_from_m2'] = lib.fn('m4_from_m2', [M2], M4, argnames=['m'])(
        lambda m: M4(V4(at(m, 0, 0), at(m, 0, 1), Z, Z), V4(at(m, 1, 0), at(m, 1, 1), Z, Z), V4(Z, Z, O, Z), V4(Z, Z, Z, O)))
    F['m4_from_m3'] = lib.fn('m4_from_m3', [M3], M4, argnames=['m'])(
        lambda m: M4(*[V4(at(m, c, 0), at(m, c, 1), at(m, c, 2), Z) for c in range(3)], V4(Z, Z, Z, O)))
    # transforms
    P2, P3 = P[2], P[3]
    F['m3_transform_vector2'] = lib.fn('m3_transform_vector2', [M3, V2], V2, argnames=['m', 'v'])(
        lambda m, v: (lambda w: V2(w.x, w.y))(F['m3_mulv'](m, V3(v.x, v.y, Z))))
    F['m3_transform_point2'] = lib.fn('m3_transform_point2', [M3, P2], P2, argnames=['m', 'p'])(
        lambda m, p: (lambda w: P2(w.x, w.y))(F['m3_mulv'](m, V3(p.x, p.y, O))))
    F['m3_transform_point3'] = lib.fn('m3_transform_point3', [M3, P3], P3, argnames=['m', 'p'])(
        lambda m, p: (lambda w: P3(w.x, w.y, w.z))(F['m3_mulv'](m, V3(p.x, p.y, p.z))))
    F['m4_transform_vector3'] = lib.fn('m4_transform_vector3', [M4, V3], V3, argnames=['m', 'v'])(
        lambda m, v: (lambda w: V3(w.x, w.y, w.z))(F['m4_mulv'](m, V4(v.x, v.y, v.z, Z))))
    F['m4_transform_point3'] = lib.fn('m4_transform_point3', [M4, P3], P3, argnames=['m', 'p'])(
        lambda m, p: F['p3_from_homogeneous'](F['m4_mulv'](m, F['p3_to_homogeneous'](p))))
    return F


MAT = r"(&'[a-z]+ )?Matrix[2-4]<S>"


def contracts(unit, im, f):
    if im is None:
        return None
    st, self_ref = base_type(im.selfty)
    tn = trait_name(im.trait)
    ta = trait_args(im.trait)
    name = f.name
    if tn == 'From' and re.fullmatch(r'Matrix[34]<S>', im.selfty) and re.fullmatch(r'Matrix[23]<S>', ta):
        return Contract(ensures=['ret == m%s_from_m%s($0)' % (im.selfty[6], ta[6])], spec='m%s_from_m%s(v)' % (im.selfty[6], ta[6]))
    if not re.fullmatch(r'Matrix[2-4]', st):
        return None
    n = int(st[-1])
    p, vp = 'm%d' % n, 'v%d' % n
    selfx = deref('self', self_ref)
    if tn is None:
        if name == 'new':
            return Contract(ensures=['ret == %s_new(%s)' % (p, ', '.join('$%d' % i for i in range(n * n)))])
        if name == 'from_cols':
            return Contract(ensures=['ret == %s_from_cols(%s)' % (p, ', '.join('$%d' % i for i in range(n)))])
        if name == 'from_translation':
            return Contract(ensures=['ret == %s_from_translation($0)' % p])
        if name == 'from_nonuniform_scale':
            return Contract(ensures=['ret == %s_from_nonuniform_scale(%s)' % (p, ', '.join('$%d' % i for i in range(n - 1)))])
        if name == 'from_scale':
            return Contract(ensures=['ret == %s_from_nonuniform_scale(%s)' % (p, ', '.join(['$0'] * (n - 1)))])
        return None
    if tn == 'Clone' and name == 'clone':
        return Contract(ensures=['ret == *self'])
    if tn == 'PartialEq' and name == 'eq':
        return Contract(ensures=['ret == %s_eq(*self, *$1)' % p], spec='%s_eq(*self, *rhs)' % p)
    if tn == 'Zero' and name == 'zero':
        return Contract(ensures=['ret == %s_zero()' % p])
    if tn == 'One' and name == 'one':
        return Contract(ensures=['ret == %s_identity()' % p])
    if tn == 'VectorSpace' and name == 'lerp':
        return Contract(ensures=['ret == %s_lerp(self, $1, $2)' % p])
    if tn == 'Matrix':
        if name == 'row':
            return Contract(ensures=['ret == %s_row(*self, $1 as int)' % p])
        if name == 'transpose':
            return Contract(ensures=['ret == %s_transpose(*self)' % p])
        return None
    if tn == 'SquareMatrix':
        d = {'from_value': 'ret == %s_from_value($0)' % p, 'from_diagonal': 'ret == %s_from_diagonal($0)' % p,
             'identity': 'ret == %s_identity()' % p, 'diagonal': 'ret == %s_diagonal(*self)' % p,
             'trace': 'ret == %s_trace(*self)' % p}
        if name in d:
            return Contract(ensures=[d[name]])
        return None
    if tn in ('Add', 'Sub') and re.search(r'Matrix', ta):
        _, rref = base_type(ta)
        sp = '%s_%s' % (p, tn.lower())
        return Contract(ensures=['ret == %s(%s, %s)' % (sp, selfx, deref('$1', rref))], spec='%s(%s, %s)' % (sp, selfx, deref('rhs', rref)))
    if tn == 'Neg':
        return Contract(ensures=['ret == %s_neg(%s)' % (p, selfx)], spec='%s_neg(%s)' % (p, selfx))
    if tn in ('Mul', 'Div', 'Rem') and ta.strip() == 'S':
        sp = '%s_%s' % (p, {'Mul': 'scale', 'Div': 'divs', 'Rem': 'rems'}[tn])
        return Contract(ensures=['ret == %s(%s, $1)' % (sp, selfx)], spec='%s(%s, rhs)' % (sp, selfx))
    if tn in ('AddAssign', 'SubAssign') and re.search(r'Matrix', ta):
        sp = '%s_%s' % (p, tn[:3].lower())
        return Contract(ensures=['*final(self) == %s(*old(self), $1)' % sp], spec='%s(*self, rhs)' % sp)
    if tn in ('MulAssign', 'DivAssign', 'RemAssign') and ta.strip() == 'S':
        sp = '%s_%s' % (p, {'Mul': 'scale', 'Div': 'divs', 'Rem': 'rems'}[tn[:-6]])
        return Contract(ensures=['*final(self) == %s(*old(self), $1)' % sp], spec='%s(*self, rhs)' % sp)
    if tn == 'Mul' and re.search(r'Vector', ta):
        _, rref = base_type(ta)
        return Contract(ensures=['ret == %s_mulv(%s, %s)' % (p, selfx, deref('$1', rref))],
                        spec='%s_mulv(%s, %s)' % (p, selfx, deref('rhs', rref)))
    if tn == 'Mul' and re.search(r'Matrix', ta):
        _, rref = base_type(ta)
        return Contract(ensures=['ret == %s_mul(%s, %s)' % (p, selfx, deref('$1', rref))],
                        spec='%s_mul(%s, %s)' % (p, selfx, deref('rhs', rref)))
    if tn == 'Transform':
        dim = ta.strip()[5]     # Point2 / Point3
        if name == 'transform_vector':
            sp = {('3', '2'): 'm3_transform_vector2(*self, $1)', ('3', '3'): 'm3_mulv(*self, $1)', ('4', '3'): 'm4_transform_vector3(*self, $1)'}[(str(n), dim)]
            return Contract(ensures=['ret == ' + sp])
        if name == 'transform_point':
            sp = {('3', '2'): 'm3_transform_point2(*self, $1)', ('3', '3'): 'm3_transform_point3(*self, $1)', ('4', '3'): 'm4_transform_point3(*self, $1)'}[(str(n), dim)]
            return Contract(ensures=['ret == ' + sp])
        if name == 'concat':
            return Contract(ensures=['ret == %s_mul(*self, *$1)' % p])
        return None
    return None


def select_c01(unit, transform_space=r'Point3<S>'):
    """Verus cannot disambiguate two impls of the generic trait Transform<P> for the same type (Matrix3 has
    Transform<Point2> and Transform<Point3>), so a unit holds one of them; the other goes in a twin unit."""
    unit.select(
        Sel(None, r'Matrix[2-4]<S>', ['new', 'from_cols', 'from_translation', 'from_scale', 'from_nonuniform_scale']),
        Sel('Clone', MAT), Sel('Copy', MAT), Sel('PartialEq', MAT, ['eq']),
        Sel('Zero', MAT, ['zero']), Sel('One', MAT),
        Sel('VectorSpace', MAT, ['lerp']),
        Sel('Matrix', MAT, ['row', 'transpose']),
        Sel('SquareMatrix', MAT, ['from_value', 'from_diagonal', 'identity', 'diagonal', 'trace']),
        Sel('Add', MAT), Sel('Sub', MAT), Sel('Neg', MAT),
        Sel('Mul', MAT), Sel('Div', MAT), Sel('Rem', MAT),
        Sel('AddAssign', MAT), Sel('SubAssign', MAT), Sel('MulAssign', MAT), Sel('DivAssign', MAT), Sel('RemAssign', MAT),
        Sel('From', r'Matrix[34]<S>', trait_args=r'Matrix[23]<S>'),
        Sel('Transform', MAT, ['transform_vector', 'transform_point', 'concat'], trait_args=transform_space),
    )
    unit.trait_extras['Matrix'] = dict(
        decl_items='spec fn dim() -> nat;',
        requires={'row': ['$1 < Self::dim()']},
        impl_items=lambda im: 'open spec fn dim() -> nat { %s }' % base_type(im.selfty)[0][-1])


def laws(F):
    out = []
    for n in (2, 3, 4):
        T, VT = M[n], V[n]
        p, vp = 'm%d' % n, 'v%d' % n
        g = lambda s: F['%s_%s' % (p, s)]
        gv = lambda s: F['%s_%s' % (vp, s)]
        # linear action, ring laws
        L = Law('%s_action' % p, [('a', T), ('b', T), ('u', VT), ('v', VT), ('s', R)])
        a, b, u, v, s = L.vars
        L.eq(g('mulv')(a, gv('add')(u, v)), gv('add')(g('mulv')(a, u), g('mulv')(a, v)))
        L.eq(g('mulv')(a, gv('scale')(u, s)), gv('scale')(g('mulv')(a, u), s))
        L.eq(g('mulv')(g('mul')(a, b), v), g('mulv')(a, g('mulv')(b, v)))
        L.eq(g('mulv')(g('identity')(), v), v)
        L.eq(g('mulv')(g('add')(a, b), v), gv('add')(g('mulv')(a, v), g('mulv')(b, v)))
        out.append(L)
        L = Law('%s_ring' % p, [('a', T), ('b', T), ('c', T), ('s', R)])
        a, b, c, s = L.vars
        L.eq(g('mul')(g('mul')(a, b), c), g('mul')(a, g('mul')(b, c)))
        out.append(L)
        L = Law('%s_ring2' % p, [('a', T), ('b', T), ('c', T), ('s', R)])
        a, b, c, s = L.vars
        L.eq(g('mul')(a, g('add')(b, c)), g('add')(g('mul')(a, b), g('mul')(a, c)))
        L.eq(g('mul')(g('add')(a, b), c), g('add')(g('mul')(a, c), g('mul')(b, c)))
        L.eq(g('mul')(g('identity')(), a), a)
        L.eq(g('mul')(a, g('identity')()), a)
        L.eq(g('mul')(g('scale')(a, s), b), g('scale')(g('mul')(a, b), s))
        L.eq(g('add')(a, b), g('add')(b, a))
        L.eq(g('add')(g('add')(a, b), c), g('add')(a, g('add')(b, c)))
        L.eq(g('add')(a, g('neg')(a)), g('zero')())
        L.eq(g('sub')(a, b), g('add')(a, g('neg')(b)))
        out.append(L)
        # element (c,r): row / transpose / diagonal / trace read exactly those elements
        L = Law('%s_elements' % p, [('a', T)])
        a, = L.vars
        L.eq(g('transpose')(g('transpose')(a)), a)
        tr = at(a, 0, 0)
        for i in range(1, n):
            tr = tr + at(a, i, i)
        L.eq(g('trace')(a), tr)
        out.append(L)
    M2, M3, M4 = M[2], M[3], M[4]
    V2, V3, V4 = V[2], V[3], V[4]
    P2, P3 = P[2], P[3]
    # constructors: action on points and vectors
    L = Law('m4_affine', [('t', V3), ('x', R), ('y', R), ('z', R), ('p', P3), ('v', V3)])
    t, x, y, z, p, v = L.vars
    L.eq(F['m4_transform_point3'](F['m4_from_translation'](t), p), F['p3_addv'](p, t))
    L.eq(F['m4_transform_vector3'](F['m4_from_translation'](t), v), v)
    L.eq(F['m4_transform_point3'](F['m4_from_nonuniform_scale'](x, y, z), p), P3(p.x * x, p.y * y, p.z * z))
    L.eq(F['m4_transform_vector3'](F['m4_from_nonuniform_scale'](x, y, z), v), V3(v.x * x, v.y * y, v.z * z))
    out.append(L)
    L = Law('m3_affine', [('t', V2), ('x', R), ('y', R), ('p', P2), ('v', V2)])
    t, x, y, p, v = L.vars
    L.eq(F['m3_transform_point2'](F['m3_from_translation'](t), p), F['p2_addv'](p, t))
    L.eq(F['m3_transform_vector2'](F['m3_from_translation'](t), v), v)
    L.eq(F['m3_transform_point2'](F['m3_from_nonuniform_scale'](x, y), p), P2(p.x * x, p.y * y))
    L.eq(F['m3_transform_vector2'](F['m3_from_nonuniform_scale'](x, y), v), V2(v.x * x, v.y * y))
    out.append(L)
    # embeddings are ring homomorphisms
    L = Law('m_embed', [('a', M2), ('b', M2), ('c', M3), ('d', M3)])
    a, b, c, d = L.vars
    L.eq(F['m3_from_m2'](F['m2_mul'](a, b)), F['m3_mul'](F['m3_from_m2'](a), F['m3_from_m2'](b)))
    L.eq(F['m4_from_m2'](F['m2_mul'](a, b)), F['m4_mul'](F['m4_from_m2'](a), F['m4_from_m2'](b)))
    L.eq(F['m4_from_m3'](F['m3_mul'](c, d)), F['m4_mul'](F['m4_from_m3'](c), F['m4_from_m3'](d)))
    L.eq(F['m4_from_m3'](F['m3_from_m2'](a)), F['m4_from_m2'](a))
    L.eq(F['m3_from_m2'](F['m2_identity']()), F['m3_identity']())
    L.eq(F['m4_from_m3'](F['m3_identity']()), F['m4_identity']())
    out.append(L)
    return out


# ===========================================================================
# C02: determinant / inverse / transpose

def rename_call(law, root_map):
    """poly call text of a Law with its struct roots renamed (e.g. m -> self)"""
    args = []
    for _, c in law.atoms():
        for a, b in root_map.items():
            if c == a + '@' or c.startswith(a + '.'):
                c = b + c[len(a):]
        args.append(c)
    return 'poly::p_%s(%s);' % (law.name, ', '.join(args))


def det_sub123(m):
    """lanes of det_sub_proc_unsafe(m, 1, 2, 3), in the shape the code computes them"""
    V4 = V[4]
    s = lambda k: at(m, k // 4, k % 4)
    x, y, z = 1, 2, 3
    a = [s(4 + x), s(12 + x), s(x), s(8 + x)]
    b = [s(8 + y), s(8 + y), s(4 + y), s(4 + y)]
    c = [s(12 + z), s(z), s(12 + z), s(z)]
    d = [s(8 + x), s(8 + x), s(4 + x), s(4 + x)]
    e = [s(12 + y), s(y), s(12 + y), s(y)]
    f = [s(4 + z), s(12 + z), s(z), s(8 + z)]
    g = [s(12 + x), s(x), s(12 + x), s(x)]
    h = [s(4 + y), s(12 + y), s(y), s(8 + y)]
    i = [s(8 + z), s(8 + z), s(4 + z), s(4 + z)]
    lanes = []
    for k in range(4):
        t = a[k] * (b[k] * c[k])
        t = t + d[k] * (e[k] * f[k])
        t = t + g[k] * (h[k] * i[k])
        t = t - a[k] * (e[k] * i[k])
        t = t - d[k] * (h[k] * c[k])
        t = t - g[k] * (b[k] * f[k])
        lanes.append(t)
    return V4(*lanes)


def code_det(m, n, F):
    """determinant in the shape the code computes it"""
    a = lambda c, r: at(m, c, r)
    if n == 2:
        return a(0, 0) * a(1, 1) - a(1, 0) * a(0, 1)
    if n == 3:
        return (a(0, 0) * (a(1, 1) * a(2, 2) - a(2, 1) * a(1, 2)) - a(1, 0) * (a(0, 1) * a(2, 2) - a(2, 1) * a(0, 2))
                + a(2, 0) * (a(0, 1) * a(1, 2) - a(1, 1) * a(0, 2)))
    tmp = F['m4_det_sub123'](m)
    return F['v4_dot'](tmp, V[4](a(0, 0), a(1, 0), a(2, 0), a(3, 0)))


def minor3(t, i, j):
    """Matrix3 built by the cofactor closure of Matrix4::invert: columns of t except i, each with row j dropped"""
    V3, M3 = V[3], M[3]
    keepc = [c for c in range(4) if c != i]
    keepr = [r for r in range(4) if r != j]
    return M3(*[V3(*[at(t, c, r) for r in keepr]) for c in keepc])


class InvGen:
    """generates the flat certificate lemmas for M*N = N*M = I with N the inverse the code computes"""

    def __init__(self, n, F):
        self.n = n
        self.F = F
        self.T = M[n]
        self.m = self.T.var('m')
        self.d = R('d', 'd')
        self.texts = []
        self.lemmas = []
        self.generic = set()
        self.det_flat = leibniz(self.m, n).flat

    def code_inverse(self):
        """entries N[c][r] as (numerator R, kind) in the shape the code computes them"""
        n, m, d, F = self.n, self.m, self.d, self.F
        a = lambda c, r: at(m, c, r)
        if n == 2:
            X = [[a(1, 1), -a(0, 1)], [-a(1, 0), a(0, 0)]]
            return [[(X[c][r], 'div') for r in range(2)] for c in range(2)]
        if n == 3:
            V3 = V[3]
            cs = cols(m)
            cr = F['v3_cross'].pyfn
            pre = [cr(cs[1], cs[2]), cr(cs[2], cs[0]), cr(cs[0], cs[1])]   # columns before the transpose
            # N = from_cols(pre[0]/d, pre[1]/d, pre[2]/d).transpose(): N[c][r] = pre[r][c] / d
            return [[(comps(pre[r])[c], 'div') for r in range(3)] for c in range(3)]
        # n == 4: N[c][r] = cf(c, r) = det3(minor(t, c, r)) * sign * inv with t = transpose(m)
        t = F['m4_transpose'].pyfn(m)
        out = []
        for c in range(4):
            row = []
            for r in range(4):
                mu = leibniz(minor3(t, c, r), 3)
                sign = -R.lit(1) if (c + r) % 2 == 1 else R.lit(1)
                row.append((mu * sign, 'inv'))
            out.append(row)
        return out

    def generate(self):
        n, m, d = self.n, self.m, self.d
        N = self.code_inverse()
        kind = N[0][0][1]
        atoms = [leaf.flat for leaf in m.leaves()]
        mparams = ', '.join('%s: real' % a for a in atoms)
        margs = ', '.join(atoms)
        inv = R('inv', 'inv')
        inner_calls = []
        ens = []
        # quotient atoms
        if kind == 'div':
            qname = {}
            qdefs = []
            for c in range(n):
                for r in range(n):
                    qname[(c, r)] = 'q%d%d' % (c, r)
                    qdefs.append((qname[(c, r)], N[c][r][0].flat))
            qparams = ', '.join('%s: real' % q for q, _ in qdefs)
            qreq = ['d * %s == %s' % (q, x) for q, x in qdefs]
            Nq = [[R('?', qname[(c, r)]) for r in range(n)] for c in range(n)]
            Nreal = [[R('?', '(%s / d)' % N[c][r][0].flat) for r in range(n)] for c in range(n)]
        else:
            qparams = 'inv: real'
            qreq = ['d * inv == 1real']
            Nq = [[N[c][r][0] * inv for r in range(n)] for c in range(n)]
            invreal = R('?', '(1real / d)')
            Nreal = [[N[c][r][0] * invreal for r in range(n)] for c in range(n)]
        for side in ('MN', 'NM'):
            for c in range(n):
                for r in range(n):
                    t = '1real' if c == r else '0real'
                    terms_q, terms_x, terms_real, used = [], [], [], []
                    for k in range(n):
                        if side == 'MN':
                            a_k = at(m, k, r)
                            nq, nx, nr = Nq[c][k], N[c][k][0], Nreal[c][k]
                            terms_q.append('(%s * %s)' % (a_k.flat, nq.flat))
                            terms_real.append('(%s * %s)' % (a_k.flat, nr.flat))
                            used.append((c, k))
                        else:
                            a_k = at(m, c, k)
                            nq, nx, nr = Nq[k][r], N[k][r][0], Nreal[k][r]
                            terms_q.append('(%s * %s)' % (nq.flat, a_k.flat))
                            terms_real.append('(%s * %s)' % (nr.flat, a_k.flat))
                            used.append((k, r))
                        terms_x.append((a_k.flat, nx.flat))

                    def lsum(ts):
                        acc = ts[0]
                        for x in ts[1:]:
                            acc = '(%s + %s)' % (acc, x)
                        return acc
                    lhs_q = lsum(terms_q)
                    lhs_real = lsum(terms_real)
                    sum_ax = ' + '.join('%s * %s' % (a, x) for a, x in terms_x)
                    name = 'm%d_inv_%s_%d%d' % (n, side, c, r)
                    # pass B: the Laplace identity of this entry with the concrete polynomials
                    laplace = '(%s) - %s * (%s) == 0real' % (sum_ax, t, self.det_flat)
                    pb = 'pub proof fn p_%s(%s)\n    ensures %s,\n{\n    assert(%s) by(nonlinear_arith);\n}\n' % (name, mparams, laplace, laplace)
                    self.texts.append(pb)
                    self.generic.add((kind, side, n))
                    # the generic pass-A entry lemma is instantiated with this entry's coefficients, numerators and quotients
                    if kind == 'div':
                        gargs = [a for a, _ in terms_x] + [x for _, x in terms_x] + ['(%s / d)' % x for _, x in terms_x] + ['d', self.det_flat, t]
                    else:
                        gargs = [a for a, _ in terms_x] + [x for _, x in terms_x] + ['(1real / d)', 'd', self.det_flat, t]
                    inner_calls.append('    poly::p_%s(%s);\n    inv_entry_%s_%s_%d(%s);\n' % (name, margs, kind, side, n, ', '.join(gargs)))
                    ens.append('%s == %s' % (lhs_real, t))
        outer = 'pub proof fn m%d_inverse(%s, d: real)\n    requires d != 0real, d == %s,\n    ensures %s,\n{\n' % (
            n, mparams, self.det_flat, ',\n        '.join(ens))
        if kind == 'div':
            for q, x in qdefs:
                outer += '    assert(d * (%s / d) == %s) by(nonlinear_arith) requires d != 0real;\n' % (x, x)
        else:
            outer += '    assert(d * (1real / d) == 1real) by(nonlinear_arith) requires d != 0real;\n'
        outer += ''.join(inner_calls) + '}\n'
        self.lemmas.append(outer)
        call = 'm%d_inverse(%s, det@);' % (n, ', '.join('self.%s.%s@' % (XYZW[c], XYZW[r]) for c in range(n) for r in range(n)))
        return call


def generic_inv_identity(kind, side, n):
    a = ['a%d' % k for k in range(n)]
    x = ['x%d' % k for k in range(n)]
    q = ['q%d' % k for k in range(n)]
    if kind == 'div':
        params = a + x + q + ['d', 'D', 't']
        terms = ['(%s * %s)' % ((a[k], q[k]) if side == 'MN' else (q[k], a[k])) for k in range(n)]
        cert = ' + '.join('%s * (d * %s - %s)' % (a[k], q[k], x[k]) for k in range(n))
    else:
        params = a + x + ['inv', 'd', 'D', 't']
        terms = ['(%s * (%s * inv))' % (a[k], x[k]) if side == 'MN' else '((%s * inv) * %s)' % (x[k], a[k]) for k in range(n)]
        cert = '(%s) * (d * inv - 1real)' % ' + '.join('%s * %s' % (a[k], x[k]) for k in range(n))
    lhs = terms[0]
    for tt in terms[1:]:
        lhs = '(%s + %s)' % (lhs, tt)
    sum_ax = ' + '.join('%s * %s' % (a[k], x[k]) for k in range(n))
    ident = 'd * (%s - t) == %s + ((%s) - t * (D)) + t * ((D) - d)' % (lhs, cert, sum_ax)
    return 'pub proof fn p_inv_id_%s_%s_%d(%s)\n    ensures %s,\n{\n    assert(%s) by(nonlinear_arith);\n}\n' % (
        kind, side, n, ', '.join(p + ': real' for p in params), ident, ident)


def generic_inv_entry(kind, side, n):
    """pass-A lemma, generic in coefficients a_k, numerators x_k, quotients (q_k or inv), d, D, t:
    from d != 0, d == D, d*q_k == x_k (or d*inv == 1) and sum a_k x_k == t*D conclude the entry equals t"""
    a = ['a%d' % k for k in range(n)]
    x = ['x%d' % k for k in range(n)]
    q = ['q%d' % k for k in range(n)]
    if kind == 'div':
        params = a + x + q + ['d', 'D', 't']
        terms = ['(%s * %s)' % ((a[k], q[k]) if side == 'MN' else (q[k], a[k])) for k in range(n)]
        rel = ['d * %s == %s' % (q[k], x[k]) for k in range(n)]
        cert = ' + '.join('%s * (d * %s - %s)' % (a[k], q[k], x[k]) for k in range(n))
    else:
        params = a + x + ['inv', 'd', 'D', 't']
        terms = ['(%s * (%s * inv))' % (a[k], x[k]) if side == 'MN' else '((%s * inv) * %s)' % (x[k], a[k]) for k in range(n)]
        rel = ['d * inv == 1real']
        cert = '(%s) * (d * inv - 1real)' % ' + '.join('%s * %s' % (a[k], x[k]) for k in range(n))
    lhs = terms[0]
    for tt in terms[1:]:
        lhs = '(%s + %s)' % (lhs, tt)
    sum_ax = ' + '.join('%s * %s' % (a[k], x[k]) for k in range(n))
    ident = 'd * (%s - t) == %s + ((%s) - t * (D)) + t * ((D) - d)' % (lhs, cert, sum_ax)
    out = 'pub proof fn inv_entry_%s_%s_%d(%s)\n    requires d != 0real, d == D, %s, (%s) - t * (D) == 0real,\n    ensures %s == t,\n{\n' % (
        kind, side, n, ', '.join(p + ': real' for p in params), ', '.join(rel), sum_ax, lhs)
    out += '    poly::p_inv_id_%s_%s_%d(%s);\n' % (kind, side, n, ', '.join(params))
    if kind == 'div':
        for k in range(n):
            out += '    assert(%s * (d * %s - %s) == 0real) by(nonlinear_arith) requires d * %s == %s;\n' % (a[k], q[k], x[k], q[k], x[k])
    else:
        out += '    assert((%s) * (d * inv - 1real) == 0real) by(nonlinear_arith) requires d * inv == 1real;\n' % sum_ax
    out += '    assert(t * ((D) - d) == 0real) by(nonlinear_arith) requires d == D;\n'
    out += '    assert(d * (%s - t) == 0real);\n' % lhs
    out += '    assert(%s == t) by(nonlinear_arith) requires d * (%s - t) == 0real, d != 0real;\n}\n' % (lhs, lhs)
    return out


def build_c02(lib, F):
    F['m4_det_sub123'] = lib.fn('m4_det_sub123', [M[4]], V[4], argnames=['m'])(det_sub123)


def cf_spec():
    """spec of the cofactor closure of Matrix4::invert (text: it takes int indices)"""
    t = M[4].var('t')
    cases = []
    for i in range(4):
        for j in range(4):
            mat = minor3(t, i, j)
            sign = 's_neg(s_one())' if (i + j) % 2 == 1 else 's_one()'
            cases.append('if i == %d && j == %d { s_mul(s_mul(m3_det(%s), %s), inv) }' % (i, j, mat.spec, sign))
    return 'pub open spec fn m4_cf(t: Matrix4<Sc>, i: int, j: int, inv: Sc) -> Sc {\n    ' + '\n    else '.join(cases) + '\n    else { s_zero() }\n}\n'


def c02_hints(F):
    """shape lemmas (code-shaped determinant == Leibniz) and inverse certificates; returns (hints dict, poly texts)"""
    hints, polys, lemmas = {}, [], []
    for n in (2, 3, 4):
        L = Law('m%d_det_shape' % n, [('m', M[n])])
        m, = L.vars
        L.eq(code_det(m, n, F), leibniz(m, n))
        pa, pb = L.render()
        polys.append(pb)
        hints[('det', n)] = rename_call(L, {'m': 'self'})
        g = InvGen(n, F)
        hints[('inv', n)] = g.generate()
        polys += g.texts
        polys += [generic_inv_identity(*k) for k in sorted(g.generic)]
        lemmas += [generic_inv_entry(*k) for k in sorted(g.generic)]
        lemmas += g.lemmas
    return hints, polys, lemmas


def contracts_c02(hints):
    def fn(unit, im, f):
        if im is None:
            return None
        st, self_ref = base_type(im.selfty)
        tn = trait_name(im.trait)
        name = f.name
        if not re.fullmatch(r'Matrix[2-4]', st):
            return None
        n = int(st[-1])
        p = 'm%d' % n
        inv_ens = ['ret.is_none() <==> %s_det(*self)@ == 0real' % p,
                   'ret.is_some() ==> %s_mul(*self, ret.unwrap()) == %s_identity() && %s_mul(ret.unwrap(), *self) == %s_identity()' % (p, p, p, p)]
        def inv_hint(n):
            # hints name parameters and spec functions only (never the local `det` of the body), and stand at the head of the body
            d = 'm%d_det(*self)@' % n
            return 'if %s != 0real { %s }' % (d, hints[('inv', n)].replace('det@', d))
        if tn == 'SquareMatrix' and name == 'determinant':
            return Contract(ensures=['ret == %s_det(*self)' % p], tail=hints[('det', n)], tags=('identity',))
        if tn == 'SquareMatrix' and name == 'invert':
            if n in (2, 3):
                return Contract(ensures=inv_ens, tags=('identity',), pre=inv_hint(n))
            cl = {0: dict(params='i: isize, j: isize', ret='r: Sc', requires=['0 <= i < 4', '0 <= j < 4'],
                          ensures=['r == m4_cf(t, i as int, j as int, inv_det)'],
                          pre='let ij: isize = ((i as isize) + (j as isize)) as isize; assert((ij & 1 == 1) == (ij % 2 == 1)) by(bit_vector) requires 0 <= ij < 8;')}
            return Contract(ensures=inv_ens, tags=('identity',), closures=cl, pre=inv_hint(n))
        if tn == 'Transform' and name == 'inverse_transform':
            return Contract(ensures=inv_ens)
        if tn == 'Transform' and name == 'concat_self':
            return Contract(ensures=['*final(self) == %s_mul(*old(self), *$1)' % p])
        if tn == 'Transform' and name == 'inverse_transform_vector':
            dim = trait_args(im.trait).strip()[5]
            tv = {('3', '2'): 'm3_transform_vector2', ('3', '3'): 'm3_mulv', ('4', '3'): 'm4_transform_vector3'}[(str(n), dim)]
            cl = {0: dict(params='inverse: Matrix%d<Sc>' % n, ret='r: Vector%s<Sc>' % dim, ensures=['r == %s(inverse, vec)' % tv])}
            return Contract(ensures=['ret.is_none() <==> %s_det(*self)@ == 0real' % p,
                                     'ret.is_some() ==> exists|nn: Matrix%d<Sc>| #[trigger] %s_mul(*self, nn) == %s_identity() && %s_mul(nn, *self) == %s_identity() && ret.unwrap() == %s(nn, $1)' % (n, p, p, p, p, tv)],
                            closures=cl)
        return None
    return fn


def contract_det_sub(unit, im, f):
    if im is None and f.name == 'det_sub_proc_unsafe':
        return Contract(requires=['$1 == 1', '$2 == 2', '$3 == 3'], ensures=['ret == m4_det_sub123(*$0)'])
    return None


def laws_c02(F, dims=(2, 3, 4)):
    out = []
    for n in dims:
        T = M[n]
        p = 'm%d' % n
        g = lambda s: F['%s_%s' % (p, s)]
        L = Law('%s_transpose' % p, [('a', T), ('b', T)])
        a, b = L.vars
        L.eq(g('transpose')(g('transpose')(a)), a)
        L.eq(g('transpose')(g('mul')(a, b)), g('mul')(g('transpose')(b), g('transpose')(a)))
        L.eq(g('det')(g('transpose')(a)), g('det')(a))
        out.append(L)
        L = Law('%s_det_mul' % p, [('a', T), ('b', T)])
        a, b = L.vars
        L.eq(g('det')(g('mul')(a, b)), g('det')(a) * g('det')(b))
        out.append(L)
    return out
