"""between_vectors / from_arc (C15) and nlerp / slerp (C14)."""
import re
from common import *
from sym import R, B, Struct, SpecLib, Law, CertLaw, s_eq, lift
from c_vector import V, comps
from c_quat import Q
from c_angle import Rad, fn1

V2, V3 = V[2], V[3]


def text_specs():
    return '''
pub open spec fn v3_ulps_eq_default(a: Vector3<Sc>, b: Vector3<Sc>) -> bool {
    s_ulps_eq_default(a.x, b.x) && s_ulps_eq_default(a.y, b.y) && s_ulps_eq_default(a.z, b.z)
}
impl ApproxModel for Vector3<Sc> {
    open spec fn ulps_eq_default_spec(a: Self, b: Self) -> bool { v3_ulps_eq_default(a, b) }
    open spec fn abs_diff_eq_default_spec(a: Self, b: Self) -> bool { arbitrary() }
}
// ---- Quaternion::between_vectors: identity when (ulps-)parallel, half turn about an axis orthogonal to a when
// (ulps-)antiparallel, else the normalised (k + a.b, a x b) with k = sqrt(|a|^2 |b|^2)
pub open spec fn between_orthogonal(a: Vector3<Sc>) -> Vector3<Sc> {
    let o = v3_cross(a, v3_new(s_one(), s_zero(), s_zero()));
    if s_ulps_eq_default(v3_dot(o, o), s_zero()) { v3_cross(a, v3_new(s_zero(), s_one(), s_zero())) } else { o }
}
pub open spec fn q_between(a: Vector3<Sc>, b: Vector3<Sc>) -> Quaternion<Sc> {
    let d = v3_dot(a, b);
    let k = sc(r_sqrt(s_mul(v3_dot(a, a), v3_dot(b, b))@));
    if s_ulps_eq_default(d, s_one()) { q_one() }
    else if s_ulps_eq_default(s_div(d, k), s_neg(s_one())) { q_from_sv(s_zero(), v3_normalize(between_orthogonal(a))) }
    else { q_normalize(q_from_sv(s_add(k, d), v3_cross(a, b))) }
}
// ---- Quaternion::from_arc
pub open spec fn arc_axis(src: Vector3<Sc>) -> Vector3<Sc> {
    let v = v3_cross(v3_new(s_one(), s_zero(), s_zero()), src);
    v3_normalize(if v3_ulps_eq_default(v, v3_zero()) { v3_cross(v3_new(s_zero(), s_one(), s_zero()), src) } else { v })
}
pub open spec fn q_from_arc(src: Vector3<Sc>, dst: Vector3<Sc>, fallback: Option<Vector3<Sc>>) -> Quaternion<Sc> {
    let m = sc(r_sqrt(s_mul(v3_dot(src, src), v3_dot(dst, dst))@));
    let d = v3_dot(src, dst);
    if s_ulps_eq_default(d, m) { q_one() }
    else if s_ulps_eq_default(d, s_neg(m)) {
        let axis = match fallback { Some(x) => x, None => arc_axis(src) };
        let h = rad_scale(rad_turn_div_2(), s_lit(1real / 2real));
        q_axis_angle(axis, rad_sin(h), rad_cos(h))
    } else { q_normalize(q_from_sv(s_add(m, d), v3_cross(src, dst))) }
}
// ---- nlerp / slerp
pub open spec fn q_shorter(a: Quaternion<Sc>, b: Quaternion<Sc>) -> Quaternion<Sc> { if s_lt(q_dot(a, b), s_zero()) { q_neg(b) } else { b } }
pub open spec fn q_nlerp(a: Quaternion<Sc>, b: Quaternion<Sc>, t: Sc) -> Quaternion<Sc> {
    q_normalize(q_add(q_scale(a, s_sub(s_one(), t)), q_scale(q_shorter(a, b), t)))
}
pub open spec fn q_slerp(a: Quaternion<Sc>, b: Quaternion<Sc>, t: Sc) -> Quaternion<Sc> {
    let bb = q_shorter(a, b);
    let d = if s_lt(q_dot(a, b), s_zero()) { s_neg(q_dot(a, b)) } else { q_dot(a, b) };
    if d@ > 9995real / 10000real { q_nlerp(a, bb, t) }
    else {
        let th = r_acos(r_max(r_min(d@, 1real), 0real - 1real));
        q_normalize(q_add(q_scale(a, sc(r_sin(th * (1real - t@)))), q_scale(bb, sc(r_sin(th * t@)))))
    }
}
'''


def contracts(unit, im, f):
    if im is None:
        return None
    st, _ = base_type(im.selfty)
    tn = trait_name(im.trait)
    name = f.name
    if st == 'Quaternion':
        if tn == 'Rotation' and name == 'between_vectors':
            return Contract(ensures=['ret == q_between($0, $1)'], tags=('reference-formula',))
        if tn is None and name == 'from_arc':
            cl = {0: dict(params='', ret='r: Vector3<Sc>', ensures=['r == arc_axis(src)'])}
            return Contract(ensures=['ret == q_from_arc($0, $1, $2)'], closures=cl, tags=('reference-formula',))
        if tn is None and name == 'nlerp':
            return Contract(ensures=['ret == q_nlerp(self, $1, $2)'], tags=('reference-formula',))
        if tn is None and name == 'slerp':
            return Contract(ensures=['ret == q_slerp(self, $1, $2)'], tags=('reference-formula',))

    if st == 'Basis3' and tn == 'Rotation' and name == 'between_vectors':
        return Contract(ensures=['ret.mat == m3_from_q(q_between($0, $1))'])
    if st == 'Basis2' and tn == 'Rotation' and name == 'between_vectors':
        # the rotation by the signed (counter-clockwise) angle from a to b
        return Contract(ensures=['ret.mat == m2_rot(rad_sin(rad_atan2(v2_perp_dot($0, $1), v2_dot($0, $1))), rad_cos(rad_atan2(v2_perp_dot($0, $1), v2_dot($0, $1))))'])
    return None


def select(unit):
    from c_quat import QT
    from c_vector import VEC
    unit.select(
        Sel('Rotation', QT, ['between_vectors']), Sel(None, r'Quaternion<S>', ['from_arc', 'nlerp', 'slerp']),
        Sel('Rotation', r'Basis[23]<S>', ['between_vectors']),
    )


def laws(F):
    out = []
    # general branch, unit a, b, w = a x b, d = a.b:  w x (w x a) + (1 + d)(w x a) == (1 + d)(b - a)   and   |w|^2 == 1 - d^2
    L = CertLaw('between_core', [('a', V3), ('b', V3)])
    a, b = L.vars
    dot, cross, add, sub, scale = F['v3_dot'], F['v3_cross'], F['v3_add'], F['v3_sub'], F['v3_scale']
    L.require_eq(dot(a, a), R.lit(1))
    L.require_eq(dot(b, b), R.lit(1))
    w = cross(a, b)
    d1 = R.lit(1) + dot(a, b)
    L.eq(add(cross(w, cross(w, a)), scale(cross(w, a), d1)), scale(sub(b, a), d1))
    L.eq(dot(w, w), R.lit(1) - dot(a, b) * dot(a, b))
    out.append(L)
    # the scaled quaternion q = (s, w) k acts as  a + 2 k^2 (w x (w x a) + s (w x a))   (any w, s, k; k = 1/m when normalising)
    L = Law('between_norm', [('a', V3), ('w', V3), ('s', R), ('k', R)])
    a, w, s, k = L.vars
    qn = F['q_scale'](Q(w, s), k)
    L.eq(F['q_rotv'](qn, a), add(a, scale(add(cross(w, cross(w, a)), scale(cross(w, a), s)), R.lit(2) * k * k)))
    out.append(L)
    # with k = 1/m, m^2 = s^2 + |w|^2, s = 1 + d, |w|^2 = 1 - d^2:  2 k^2 (1 + d) == 1, so the action is a + (b - a) = b
    L = CertLaw('between_scalar', [('d', R), ('m', R), ('k', R)])
    d, m, k = L.vars
    L.require_eq(m * m, (R.lit(1) + d) * (R.lit(1) + d) + (R.lit(1) - d * d))
    L.require_eq(m * k, R.lit(1))
    L.eq(R.lit(2) * k * k * (R.lit(1) + d), R.lit(1))
    out.append(L)
    # 2-D: with c = a.b and s = perp_dot(a, b) of unit vectors, the rotation (s, c) takes a onto b -- clockwise when b is clockwise of a
    L = CertLaw('between_2d', [('a', V2), ('b', V2)])
    a, b = L.vars
    dot = F['v3_dot']
    L.require_eq(F['v2_dot'](a, a), R.lit(1))
    L.require_eq(F['v2_dot'](b, b), R.lit(1))
    L.eq(F['m2_mulv'](F['m2_rot'](F['v2_perp_dot'](a, b), F['v2_dot'](a, b)), a), b)
    out.append(L)
    # antiparallel branch: a half turn (sh = 1, ch = 0) about a unit axis n orthogonal to a sends a to -a
    L = CertLaw('half_turn', [('a', V3), ('n', V3)])
    a, n = L.vars
    L.require_eq(dot(n, n), R.lit(1))
    L.require_eq(dot(n, a), R.lit(0))
    L.eq(F['q_rotv'](Q(n, R.lit(0)), a), F['v3_neg'](a))
    out.append(L)
    return out


def laws_c14(F):
    out = []
    # slerp, exact branch: with unit a, b' and (s1, c1) = sin/cos((1-t) th), (s2, c2) = sin/cos(t th), cos th = a.b':
    #   |a s1 + b' s2|^2 = sin^2 th   and   a . (a s1 + b' s2) = sin th * cos(t th)
    L = CertLaw('slerp_speed', [('a', Q), ('b', Q), ('s1', R), ('c1', R), ('s2', R), ('c2', R)])
    a, b, s1, c1, s2, c2 = L.vars
    mag2, qdot, add, scale = F['q_magnitude2'], F['q_dot'], F['q_add'], F['q_scale']
    L.require_eq(mag2(a), R.lit(1))
    L.require_eq(mag2(b), R.lit(1))
    L.require_eq(s1 * s1 + c1 * c1, R.lit(1))
    L.require_eq(s2 * s2 + c2 * c2, R.lit(1))
    L.require_eq(qdot(a, b), c1 * c2 - s1 * s2)
    w = add(scale(a, s1), scale(b, s2))
    sinth = s1 * c2 + c1 * s2
    L.eq(mag2(w), sinth * sinth)
    L.eq(qdot(a, w), sinth * c2)
    out.append(L)
    # normalisation of a quaternion: with m = |x| (m*m == |x|^2, m != 0) the result x * (1/m) is unit, lies on the ray of x,
    # and a unit quaternion is left unchanged (m = 1): unit length, plane and end points of nlerp / slerp follow
    L = CertLaw('q_normalize', [('x', Q), ('m', R)])
    x, m = L.vars
    L.require_eq(m * m, mag2(x))
    xn = scale(x, R.lit(1) / m)
    L.eq(mag2(xn), R.lit(1))
    L.eq(scale(xn, m), x)
    out.append(L)
    L = Law('q_weights', [('a', Q), ('b', Q), ('t', R)])
    a, b, t = L.vars
    L.eq(add(scale(a, R.lit(1) - R.lit(0)), scale(b, R.lit(0))), a)
    L.eq(add(scale(a, R.lit(1) - R.lit(1)), scale(b, R.lit(1))), b)
    L.eq(F['q_dot'](a, F['q_neg'](b)), -F['q_dot'](a, b))
    out.append(L)
    # lerp end points
    L = Law('q_lerp_ends', [('a', Q), ('b', Q)])
    a, b = L.vars
    L.eq(F['q_lerp'](a, b, R.lit(0)), a)
    L.eq(F['q_lerp'](a, b, R.lit(1)), b)
    out.append(L)
    for n in (1, 2, 3, 4):
        L = Law('v%d_lerp_ends' % n, [('a', V[n]), ('b', V[n])])
        a, b = L.vars
        L.eq(F['v%d_lerp' % n](a, b, R.lit(0)), a)
        L.eq(F['v%d_lerp' % n](a, b, R.lit(1)), b)
        out.append(L)
    return out
