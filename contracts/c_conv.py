"""Conversions between rotation representations (C05) and Euler angles (C07)."""
import re
from common import *
from sym import R, B, Struct, SpecLib, Law, CertLaw, s_eq, s_lt, s_le, s_gt, s_ge, lift, ite, struct_ite
from c_vector import V, XYZW, comps
from c_matrix import M, cols, at
from c_quat import Q
from c_angle import Rad, Deg, fn1, fn2, PI
from c_rot import B2, B3

V2, V3, V4 = V[2], V[3], V[4]
M2, M3, M4 = M[2], M[3], M[4]


def mk_euler(T, name):
    return type(name, (Struct,), {'TYPE': 'Euler<%s>' % T.TYPE, 'FIELDS': [('x', T), ('y', T), ('z', T)]})


ERad = mk_euler(Rad, 'ERad')
EDeg = mk_euler(Deg, 'EDeg')


def code_m3_from_q(q, n=3):
    O, Z = R.lit(1), R.lit(0)
    x2, y2, z2 = q.v.x + q.v.x, q.v.y + q.v.y, q.v.z + q.v.z
    xx2, xy2, xz2 = x2 * q.v.x, x2 * q.v.y, x2 * q.v.z
    yy2, yz2, zz2 = y2 * q.v.y, y2 * q.v.z, z2 * q.v.z
    sy2, sz2, sx2 = y2 * q.s, z2 * q.s, x2 * q.s
    e = [[O - yy2 - zz2, xy2 + sz2, xz2 - sy2], [xy2 - sz2, O - xx2 - zz2, yz2 + sx2], [xz2 + sy2, yz2 - sx2, O - xx2 - yy2]]
    if n == 3:
        return M3(*[V3(*c) for c in e])
    return M4(*[V4(*(c + [Z])) for c in e], V4(Z, Z, Z, O))


def q_from_m3_ref(m):
    """reference formula of the matrix-to-quaternion conversion (Shepperd's four cases: non-negative trace, else the
    largest diagonal element first / second / third)"""
    half = R.lit(1) / R.lit(2)
    half = R('s_lit(1real / 2real)', '(1real / 2real)', ('op', '/', ('lit', '1'), ('lit', '2')))
    a = lambda c, r: at(m, c, r)
    trace = a(0, 0) + (a(1, 1) + a(2, 2))

    def sqrt(x):
        return fn1('r_sqrt', x)
    s0 = sqrt(R.lit(1) + trace)
    k0 = half / s0
    q0 = Q(V3((a(1, 2) - a(2, 1)) * k0, (a(2, 0) - a(0, 2)) * k0, (a(0, 1) - a(1, 0)) * k0), half * s0)
    s1 = sqrt((a(0, 0) - a(1, 1) - a(2, 2)) + R.lit(1))
    k1 = half / s1
    q1 = Q(V3(half * s1, (a(1, 0) + a(0, 1)) * k1, (a(0, 2) + a(2, 0)) * k1), (a(1, 2) - a(2, 1)) * k1)
    s2 = sqrt((a(1, 1) - a(0, 0) - a(2, 2)) + R.lit(1))
    k2 = half / s2
    q2 = Q(V3((a(1, 0) + a(0, 1)) * k2, half * s2, (a(2, 1) + a(1, 2)) * k2), (a(2, 0) - a(0, 2)) * k2)
    s3 = sqrt((a(2, 2) - a(0, 0) - a(1, 1)) + R.lit(1))
    k3 = half / s3
    q3 = Q(V3((a(0, 2) + a(2, 0)) * k3, (a(2, 1) + a(1, 2)) * k3, half * s3), (a(0, 1) - a(1, 0)) * k3)
    c0 = s_ge(trace, R.lit(0))
    c1 = s_gt(a(0, 0), a(1, 1)) & s_gt(a(0, 0), a(2, 2))
    c2 = s_gt(a(1, 1), a(2, 2))
    return struct_ite(c0, q0, struct_ite(c1, q1, struct_ite(c2, q2, q3)))


def build(lib: SpecLib, F):
    O, Z = R.lit(1), R.lit(0)
    ex, ey, ez = (lambda: V3(O, Z, Z)), (lambda: V3(Z, O, Z)), (lambda: V3(Z, Z, O))
    rotv = F['q_rotv']
    # the matrix of q: columns are the images of the basis vectors under v -> q*v
    F['m3_from_q'] = lib.fn('m3_from_q', [Q], M3, argnames=['q'])(lambda q: M3(rotv(q, ex()), rotv(q, ey()), rotv(q, ez())))
    F['m4_from_q'] = lib.fn('m4_from_q', [Q], M4, argnames=['q'])(lambda q: F['m4_from_m3'](F['m3_from_q'](q)))
    F['q_from_m3'] = lib.fn('q_from_m3', [M3], Q, argnames=['m'])(q_from_m3_ref)
    # Euler: intrinsic X-Y-Z = Rx * Ry * Rz
    F['m3_euler'] = lib.fn('m3_euler', [R] * 6, M3, argnames=['sx', 'cx', 'sy', 'cy', 'sz', 'cz'])(
        lambda sx, cx, sy, cy, sz, cz: F['m3_mul'](F['m3_mul'](F['m3_rot_x'](sx, cx), F['m3_rot_y'](sy, cy)), F['m3_rot_z'](sz, cz)))
    F['m4_euler'] = lib.fn('m4_euler', [R] * 6, M4, argnames=['sx', 'cx', 'sy', 'cy', 'sz', 'cz'])(
        lambda sx, cx, sy, cy, sz, cz: F['m4_from_m3'](F['m3_euler'](sx, cx, sy, cy, sz, cz)))
    F['q_euler'] = lib.fn('q_euler', [R] * 6, Q, argnames=['sx', 'cx', 'sy', 'cy', 'sz', 'cz'])(
        lambda sx, cx, sy, cy, sz, cz: F['q_mul'](F['q_mul'](F['q_axis_angle'](ex(), sx, cx), F['q_axis_angle'](ey(), sy, cy)), F['q_axis_angle'](ez(), sz, cz)))
    return F


def code_m_euler(sx, cx, sy, cy, sz, cz, n):
    O, Z = R.lit(1), R.lit(0)
    e = [[cy * cz, cx * sz + sx * sy * cz, sx * sz - cx * sy * cz], [-cy * sz, cx * cz - sx * sy * sz, sx * cz + cx * sy * sz], [sy, -sx * cy, cx * cy]]
    if n == 3:
        return M3(*[V3(*c) for c in e])
    return M4(*[V4(*(c + [Z])) for c in e], V4(Z, Z, Z, O))


def code_q_euler(s_x, c_x, s_y, c_y, s_z, c_z):
    return Q(V3(s_x * c_y * c_z + s_y * s_z * c_x, -s_x * s_z * c_y + s_y * c_x * c_z, s_x * s_y * c_z + s_z * c_x * c_y),
             -s_x * s_y * s_z + c_x * c_y * c_z)


def shape_hints(F):
    hints, polys = {}, []
    for n in (3, 4):
        L = Law('m%d_from_q_shape' % n, [('q', Q)])
        q, = L.vars
        L.eq(code_m3_from_q(q, n), F['m%d_from_q' % n](q))
        polys.append(L.render()[1])
        hints[('from_q', n)] = L
        L = Law('m%d_euler_shape' % n, [(x, R) for x in ('sx', 'cx', 'sy', 'cy', 'sz', 'cz')])
        L.eq(code_m_euler(*L.vars, n=n), F['m%d_euler' % n](*L.vars))
        polys.append(L.render()[1])
        hints[('euler', n)] = L
    L = Law('q_euler_shape', [(x, R) for x in ('s_x', 'c_x', 's_y', 'c_y', 's_z', 'c_z')])
    L.eq(code_q_euler(*L.vars), F['q_euler'](*L.vars))
    polys.append(L.render()[1])
    hints['q_euler'] = L
    return hints, polys


def contracts(hints, angle_kind):
    from c_rot import hint_call

    def to_rad(x):
        return x if angle_kind == 'Rad' else 'deg_to_rad(%s)' % x

    def sc6(src, halfangle=False):
        return ', '.join(sc6l(src, halfangle))

    def sc6l(src, halfangle=False):
        out = []
        for ax in 'xyz':
            r = to_rad('%s.%s' % (src, ax))
            if halfangle:
                r = 'rad_scale(%s, s_lit(1real / 2real))' % r
            out += ['rad_sin(%s)' % r, 'rad_cos(%s)' % r]
        return out

    def fn(unit, im, f):
        if im is None:
            return None
        st, _ = base_type(im.selfty)
        tn = trait_name(im.trait)
        ta = trait_args(im.trait).strip()
        name = f.name
        if tn == 'From' and name == 'from':
            if ta == 'Quaternion<S>' and st in ('Matrix3', 'Matrix4'):
                n = int(st[-1])
                # hints name parameters ($k) and spec functions only, never locals of the body (a renamed local must not break a proof)
                return Contract(ensures=['ret == m%d_from_q($0)' % n], spec='m%d_from_q(v)' % n,
                                pre=hint_call(hints[('from_q', n)], {'q': '$0'}), tags=('identity',))
            if ta == 'Quaternion<S>' and st == 'Basis3':
                return Contract(ensures=['ret.mat == m3_from_q($0)'], spec='Basis3 { mat: m3_from_q(v) }')
            if ta == 'Basis3<S>' and st == 'Quaternion':
                return Contract(ensures=['ret == q_from_m3($0.mat)'], spec='q_from_m3(v.mat)')
            if ta == 'Matrix3<S>' and st == 'Quaternion':
                return Contract(ensures=['ret == q_from_m3($0)'], spec='q_from_m3(v)', tags=('reference-formula',))
            if ta == 'Euler<A>' and st in ('Matrix3', 'Matrix4'):
                n = int(st[-1])
                return Contract(ensures=['ret == m%d_euler(%s)' % (n, sc6('$0'))],
                                pre=hint_call(hints[('euler', n)], dict(zip(('sx', 'cx', 'sy', 'cy', 'sz', 'cz'), sc6l('$0')))), tags=('identity',))
            if ta == 'Euler<A>' and st == 'Basis3':
                return Contract(ensures=['ret.mat == m3_euler(%s)' % sc6('$0')])
            if ta == 'Euler<A>' and st == 'Quaternion':
                return Contract(ensures=['ret == q_euler(%s)' % sc6('$0', True)],
                                pre=hint_call(hints['q_euler'], dict(zip(('s_x', 'c_x', 's_y', 'c_y', 's_z', 'c_z'), sc6l('$0', True)))), tags=('identity',))
            if ta == 'Quaternion<S>' and st == 'Euler':
                test = 's_add(s_mul($0.v.x, $0.v.z), s_mul($0.v.y, $0.s))'
                unit_ = 'q_magnitude2($0)@'
                hi = '(%s@ > (499real / 1000real) * %s)' % (test, unit_)
                lo = '(%s@ < (0real - (499real / 1000real)) * %s)' % (test, unit_)
                return Contract(ensures=[
                    '%s ==> ret.x == rad_zero() && ret.y == rad_turn_div_4() && ret.z == rad_scale(rad_atan2($0.v.x, $0.s), s_lit(2real))' % hi,
                    '(!%s && %s) ==> ret.x == rad_zero() && ret.y == rad_neg(rad_turn_div_4()) && ret.z == rad_scale(rad_neg(rad_atan2($0.v.x, $0.s)), s_lit(2real))' % (hi, lo),
                    '(!%s && !%s) ==> ret == euler_from_q_regular($0)' % (hi, lo)])
        if st == 'Basis3' and tn is None and name == 'from_quaternion':
            return Contract(ensures=['ret.mat == m3_from_q(*$0)'])
        if st == 'Euler' and tn is None and name == 'new':
            return Contract(ensures=['ret.x == $0 && ret.y == $1 && ret.z == $2'])
        if st == 'Euler' and tn == 'Clone':
            return Contract(ensures=['ret == *self'])
        return None
    return fn


def text_specs():
    return '''
// regular (non gimbal-lock) branch of the quaternion -> Euler extraction, as documented
pub open spec fn euler_from_q_regular(q: Quaternion<Sc>) -> Euler<Rad<Sc>> {
    let two = s_lit(2real);
    let one = s_lit(1real);
    let (qw, qx, qy, qz) = (q.s, q.v.x, q.v.y, q.v.z);
    let (sqw, sqx, sqy, sqz) = (s_mul(qw, qw), s_mul(qx, qx), s_mul(qy, qy), s_mul(qz, qz));
    Euler {
        x: rad_atan2(s_mul(two, s_add(s_mul(s_neg(qy), qz), s_mul(qx, qw))), s_sub(one, s_mul(two, s_add(sqx, sqy)))),
        y: rad_asin(s_mul(two, s_add(s_mul(qx, qz), s_mul(qy, qw)))),
        z: rad_atan2(s_mul(two, s_add(s_mul(s_neg(qx), qy), s_mul(qz, qw))), s_sub(one, s_mul(two, s_add(sqy, sqz)))),
    }
}
'''


def select(unit):
    unit.select(
        Sel('From', r'Matrix[34]<S>', trait_args=r'Quaternion<S>'),
        Sel('From', r'Basis3<S>', trait_args=r'Quaternion<S>'),
        Sel('From', r'Quaternion<S>', trait_args=r'(Basis3|Matrix3)<S>'),
        Sel(None, r'Basis3<S>', ['from_quaternion']),
        Sel('From', r'Matrix[34]<A::Unitless>', trait_args=r'Euler<A>'),
        Sel('From', r'Basis3<A::Unitless>', trait_args=r'Euler<A>'),
        Sel('From', r'Quaternion<A::Unitless>', trait_args=r'Euler<A>'),
        Sel('From', r'Euler<Rad<S>>', trait_args=r'Quaternion<S>'),
        Sel(None, r'Euler<A>', ['new']), Sel('Clone', r'Euler<A>'), Sel('Copy', r'Euler<A>'),
    )


def laws_c05(F):
    out = []
    mq = F['m3_from_q']
    L = Law('m_from_q_action', [('q', Q), ('v', V3)])
    q, v = L.vars
    L.eq(F['m3_mulv'](mq(q), v), F['q_rotv'](q, v))
    L.eq(F['m4_transform_vector3'](F['m4_from_q'](q), v), F['q_rotv'](q, v))
    out.append(L)
    L = CertLaw('m_from_q_proper', [('q', Q)])
    q, = L.vars
    L.require_eq(F['q_magnitude2'](q), R.lit(1))
    L.eq(F['m3_mul'](F['m3_transpose'](mq(q)), mq(q)), F['m3_identity']())
    L.eq(F['m3_det'](mq(q)), R.lit(1))
    out.append(L)
    L = CertLaw('m_from_q_compose', [('p', Q), ('q', Q)])
    p, q = L.vars
    L.require_eq(F['q_magnitude2'](p), R.lit(1))
    L.require_eq(F['q_magnitude2'](q), R.lit(1))
    L.eq(mq(F['q_mul'](p, q)), F['m3_mul'](mq(p), mq(q)))
    out.append(L)
    # entries of M(q) for unit q that the matrix -> quaternion conversion reads (used by the round-trip law)
    from c_matrix import at
    L = CertLaw('m_from_q_entries', [('q', Q)])
    q, = L.vars
    L.require_eq(F['q_magnitude2'](q), R.lit(1))
    m = mq(q)
    a = lambda c, r: at(m, c, r)
    s, x, y, z = q.s, q.v.x, q.v.y, q.v.z
    four = R.lit(4)
    L.eq(R.lit(1) + (a(0, 0) + (a(1, 1) + a(2, 2))), four * s * s)
    L.eq((a(0, 0) - a(1, 1) - a(2, 2)) + R.lit(1), four * x * x)
    L.eq((a(1, 1) - a(0, 0) - a(2, 2)) + R.lit(1), four * y * y)
    L.eq((a(2, 2) - a(0, 0) - a(1, 1)) + R.lit(1), four * z * z)
    L.eq(a(1, 2) - a(2, 1), four * x * s)
    L.eq(a(2, 0) - a(0, 2), four * y * s)
    L.eq(a(0, 1) - a(1, 0), four * z * s)
    L.eq(a(1, 0) + a(0, 1), four * x * y)
    L.eq(a(0, 2) + a(2, 0), four * x * z)
    L.eq(a(2, 1) + a(1, 2), four * y * z)
    out.append(L)
    return out


def laws_c07(F):
    out = []
    # exact rebuild in the regular branch, polynomial core: with t = sin y = 2(qx qz + qy qw), cy = cos y (cy^2 = 1 - t^2, cy != 0),
    # and sin/cos of x, z written as the atan2 numerators / denominators over cy, the code-shaped Euler matrix is M(q)
    L = CertLaw('euler_rebuild', [('q', Q), ('cy', R)])
    q, cy = L.vars
    s, x, y, z = q.s, q.v.x, q.v.y, q.v.z
    two, one = R.lit(2), R.lit(1)
    t = two * (x * z + y * s)
    Yx = two * ((-y) * z + x * s)
    Xx = one - two * (x * x + y * y)
    Yz = two * ((-x) * y + z * s)
    Xz = one - two * (y * y + z * z)
    L.require_eq(F['q_magnitude2'](q), one)
    L.require_eq(cy * cy, one - t * t)
    L.require_nonzero(cy)
    L.eq(code_m_euler(Yx / cy, Xx / cy, t, cy, Yz / cy, Xz / cy, n=3), F['m3_from_q'](q))
    L.eq(Yx * Yx + Xx * Xx, one - t * t)
    L.eq(Yz * Yz + Xz * Xz, one - t * t)
    out.append(L)
    names = ['shx', 'chx', 'shy', 'chy', 'shz', 'chz']
    L = CertLaw('q_euler_matrix', [(n, R) for n in names])
    shx, chx, shy, chy, shz, chz = L.vars
    for s_, c_ in ((shx, chx), (shy, chy), (shz, chz)):
        L.require_eq(s_ * s_ + c_ * c_, one)
    L.eq(F['m3_from_q'](code_q_euler(shx, chx, shy, chy, shz, chz)),
         code_m_euler(two * shx * chx, chx * chx - shx * shx, two * shy * chy, chy * chy - shy * shy, two * shz * chz, chz * chz - shz * shz, n=3))
    out.append(L)
    return out


def handwritten_c07():
    import os
    return open(os.path.join(os.path.dirname(os.path.abspath(__file__)), 'handwritten', 'c07_laws.rs')).read() + '''
pub proof fn law_rad_atan2_range(a: Sc, b: Sc)
    ensures 0real - r_pi() <= rad_atan2(a, b).0@ <= r_pi(),
{ ax_atan2(a@, b@); }
pub proof fn law_rad_asin_range(t: Sc)
    requires -1real <= t@ <= 1real
    ensures 0real - r_pi() / 2real <= rad_asin(t).0@ <= r_pi() / 2real,
{ ax_asin(t@); }
// outside the gimbal-lock cone (|sin y| = 2|qx qz + qy qw| <= 0.998 for a unit quaternion) the extracted angles lie in the documented ranges
pub proof fn law_euler_ranges(q: Quaternion<Sc>)
    requires -(499real / 1000real) <= s_add(s_mul(q.v.x, q.v.z), s_mul(q.v.y, q.s))@ <= 499real / 1000real,
    ensures ({ let e = euler_from_q_regular(q);
        &&& 0real - r_pi() <= e.x.0@ <= r_pi()
        &&& 0real - r_pi() / 2real <= e.y.0@ <= r_pi() / 2real
        &&& 0real - r_pi() <= e.z.0@ <= r_pi() }),
{
    let two = s_lit(2real);
    let one = s_lit(1real);
    let (qw, qx, qy, qz) = (q.s, q.v.x, q.v.y, q.v.z);
    let (sqw, sqx, sqy, sqz) = (s_mul(qw, qw), s_mul(qx, qx), s_mul(qy, qy), s_mul(qz, qz));
    law_rad_atan2_range(s_mul(two, s_add(s_mul(s_neg(qy), qz), s_mul(qx, qw))), s_sub(one, s_mul(two, s_add(sqx, sqy))));
    law_rad_atan2_range(s_mul(two, s_add(s_mul(s_neg(qx), qy), s_mul(qz, qw))), s_sub(one, s_mul(two, s_add(sqy, sqz))));
    let t = s_mul(two, s_add(s_mul(qx, qz), s_mul(qy, qw)));
    assert(t@ == 2real * s_add(s_mul(qx, qz), s_mul(qy, qw))@);
    law_rad_asin_range(t);
}
// gimbal-lock branches report x = 0 and y = +-pi/2 (a quarter turn)
pub proof fn law_gimbal_values()
    ensures rad_zero().0@ == 0real, rad_turn_div_4().0@ == r_pi() / 2real, rad_neg(rad_turn_div_4()).0@ == 0real - r_pi() / 2real,
{
    assert((r_pi() * 2real) / 4real == r_pi() / 2real) by(nonlinear_arith);
}
'''
