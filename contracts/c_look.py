"""look_at / look_to (C09): contracts (documented constructions from normalize and cross) and frame laws."""
import re
from common import *
from sym import R, B, Struct, SpecLib, Law, CertLaw, s_eq, lift
from c_vector import V, comps
from c_point import P
from c_matrix import M, at

V2, V3, V4, M3, M4, P3 = V[2], V[3], V[4], M[3], M[4], P[3]


def text_specs():
    return '''
// left-handed 3-D look: rows (side, up', dir) with dir = normalize(dir), side = normalize(up x dir), up' = normalize(dir x side)
pub open spec fn m3_look_to_lh(dir: Vector3<Sc>, up: Vector3<Sc>) -> Matrix3<Sc> {
    let d = v3_normalize(dir);
    let side = v3_normalize(v3_cross(up, d));
    let u = v3_normalize(v3_cross(d, side));
    m3_transpose(m3_from_cols(side, u, d))
}
pub open spec fn m3_look_to_rh(dir: Vector3<Sc>, up: Vector3<Sc>) -> Matrix3<Sc> { m3_look_to_lh(v3_neg(dir), up) }
// right-handed view matrix: f = normalize(dir), s = normalize(f x up), u = s x f; rows (s, u, -f), eye sent to the origin
pub open spec fn m4_look_to_rh(eye: Point3<Sc>, dir: Vector3<Sc>, up: Vector3<Sc>) -> Matrix4<Sc> {
    let f = v3_normalize(dir);
    let s = v3_normalize(v3_cross(f, up));
    let u = v3_cross(s, f);
    m4_new(s.x, u.x, s_neg(f.x), s_zero(), s.y, u.y, s_neg(f.y), s_zero(), s.z, u.z, s_neg(f.z), s_zero(),
           s_neg(p3_dot(eye, s)), s_neg(p3_dot(eye, u)), p3_dot(eye, f), s_one())
}
pub open spec fn m4_look_to_lh(eye: Point3<Sc>, dir: Vector3<Sc>, up: Vector3<Sc>) -> Matrix4<Sc> { m4_look_to_rh(eye, v3_neg(dir), up) }
// 2-D: columns (d/|d|, the perpendicular on the same side as up)
pub open spec fn m2_look_at_stable(dir: Vector2<Sc>, flip: bool) -> Matrix2<Sc> {
    let b1 = v2_normalize(dir);
    let b2 = if flip { v2_new(b1.y, s_neg(b1.x)) } else { v2_new(s_neg(b1.y), b1.x) };
    m2_from_cols(b1, b2)
}
pub open spec fn m2_look_at(dir: Vector2<Sc>, up: Vector2<Sc>) -> Matrix2<Sc> { m2_look_at_stable(dir, s_le(s_mul(up.y, dir.x), s_mul(up.x, dir.y))) }
'''


def contracts(unit, im, f):
    if im is None:
        return None
    st, _ = base_type(im.selfty)
    tn = trait_name(im.trait)
    ta = trait_args(im.trait).strip()
    name = f.name
    if st == 'Matrix2' and tn is None:
        d = {'look_at': 'ret == m2_look_at($0, $1)', 'look_at_stable': 'ret == m2_look_at_stable($0, $1)'}
        if name in d:
            return Contract(ensures=[d[name]])
    if st == 'Matrix3' and tn is None:
        d = {'look_at': 'ret == m3_look_to_lh($0, $1)', 'look_to_lh': 'ret == m3_look_to_lh($0, $1)', 'look_to_rh': 'ret == m3_look_to_rh($0, $1)'}
        if name in d:
            return Contract(ensures=[d[name]])
    if st == 'Matrix4' and tn is None:
        d = {'look_at_dir': 'ret == m4_look_to_rh($0, $1, $2)', 'look_to_rh': 'ret == m4_look_to_rh($0, $1, $2)',
             'look_to_lh': 'ret == m4_look_to_lh($0, $1, $2)', 'look_at': 'ret == m4_look_to_rh($0, p3_sub($1, $0), $2)',
             'look_at_rh': 'ret == m4_look_to_rh($0, p3_sub($1, $0), $2)', 'look_at_lh': 'ret == m4_look_to_lh($0, p3_sub($1, $0), $2)'}
        if name in d:
            return Contract(ensures=[d[name]])
    if tn == 'Transform' and name in ('look_at', 'look_at_rh', 'look_at_lh'):
        if st == 'Matrix4':
            sp = 'm4_look_to_lh' if name == 'look_at_lh' else 'm4_look_to_rh'
            return Contract(ensures=['ret == %s($0, p3_sub($1, $0), $2)' % sp])
        if st == 'Matrix3' and ta == 'Point3<S>':
            sp = 'm3_look_to_rh' if name == 'look_at_rh' else 'm3_look_to_lh'
            return Contract(ensures=['ret == %s(p3_sub($1, $0), $2)' % sp])
        if st == 'Matrix3' and ta == 'Point2<S>':
            dirx = 'p2_sub($0, $1)' if name == 'look_at_rh' else 'p2_sub($1, $0)'
            return Contract(ensures=['ret == m3_from_m2(m2_look_at(%s, $2))' % dirx])
        if st == 'Decomposed':
            k = unit.dec_kind
            dirx = 'p%d_sub($0, $1)' % (2 if k == 'b2' else 3) if name == 'look_at_rh' else 'p%d_sub($1, $0)' % (2 if k == 'b2' else 3)
            n = 2 if k == 'b2' else 3
            rot = {'q': 'q_from_m3(m3_look_to_lh(%s, $2))' % dirx, 'b3': '(Basis3 { mat: m3_look_to_lh(%s, $2) })' % dirx,
                   'b2': '(Basis2 { mat: m2_look_at(%s, $2) })' % dirx}[k]
            rotv = {'q': 'q_rotv(ret.rot, %s)', 'b3': 'm3_mulv(ret.rot.mat, %s)', 'b2': 'm2_mulv(ret.rot.mat, %s)'}[k]
            return Contract(ensures=['ret.scale == s_one()', 'ret.rot == %s' % rot,
                                     'ret.disp == ' + rotv % ('p%d_sub(p%d_origin(), $0)' % (n, n))])
    if tn == 'Rotation' and name == 'look_at':
        d = {'Quaternion': 'ret == q_from_m3(m3_look_to_lh($0, $1))', 'Basis3': 'ret.mat == m3_look_to_lh($0, $1)', 'Basis2': 'ret.mat == m2_look_at($0, $1)'}
        if st in d:
            return Contract(ensures=[d[st]])
    if st == 'Basis2' and tn is None and name == 'look_at_stable':
        return Contract(ensures=['ret.mat == m2_look_at_stable($0, $1)'])
    return None


def select(unit, space, inherent_look_at=False):
    """Verus resolves `Self::look_at` in the ensures of the trait method Transform::look_at to the inherent
    Matrix3/Matrix4::look_at, so the inherent ones are verified in a twin unit without the Transform methods."""
    from c_matrix import MAT
    from c_quat import QT
    if inherent_look_at:
        unit.select(Sel(None, r'Matrix3<S>', ['look_at', 'look_to_lh', 'look_to_rh']),
                    Sel(None, r'Matrix4<S>', ['look_at', 'look_at_rh', 'look_to_rh', 'look_to_lh']))
        return
    unit.select(
        Sel(None, r'Matrix2<S>', ['look_at', 'look_at_stable']),
        Sel(None, r'Matrix3<S>', ['look_to_lh', 'look_to_rh']),
        Sel(None, r'Matrix4<S>', ['look_at_dir', 'look_to_rh', 'look_to_lh', 'look_at_rh', 'look_at_lh']),
        Sel('Transform', MAT, ['look_at', 'look_at_rh', 'look_at_lh'], trait_args=space),
        Sel('Transform', r'Decomposed<P::Diff, R>', ['look_at', 'look_at_rh', 'look_at_lh']),
        Sel('Rotation', QT, ['look_at']), Sel('Rotation', r'Basis[23]<S>', ['look_at']),
        Sel(None, r'Basis2<S>', ['look_at_stable']),
    )


def laws(F):
    out = []
    dot, cross = F['v3_dot'], F['v3_cross']
    O, Z = R.lit(1), R.lit(0)
    # frame laws: f, s unit and orthogonal, u = s x f; R = rows (s, u, -f); V = R with the eye sent to the origin
    L = CertLaw('look_frame', [('f', V3), ('s', V3), ('eye', P3), ('up', V3)])
    f, s, eye, up = L.vars
    L.require_eq(dot(f, f), O)
    L.require_eq(dot(s, s), O)
    L.require_eq(dot(s, f), Z)
    u = cross(s, f)
    Rm = M3(V3(s.x, u.x, -f.x), V3(s.y, u.y, -f.y), V3(s.z, u.z, -f.z))
    L.eq(F['m3_mul'](F['m3_transpose'](Rm), Rm), F['m3_identity']())
    L.eq(F['m3_det'](Rm), O)
    L.eq(F['m3_mulv'](Rm, f), V3(Z, Z, -O))
    Vm = M4(V4(s.x, u.x, -f.x, Z), V4(s.y, u.y, -f.y, Z), V4(s.z, u.z, -f.z, Z),
            V4(-F['p3_dot'](eye, s), -F['p3_dot'](eye, u), F['p3_dot'](eye, f), O))
    L.eq(F['m4_transform_point3'](Vm, eye), P3(Z, Z, Z))
    L.eq(dot(u, u), O)
    out.append(L)
    # up goes into the half-plane x = 0, y >= 0: with s parallel to f x up the x-coordinate s.up vanishes, and u.up = s.(f x up)
    L = Law('look_up', [('f', V3), ('up', V3), ('s', V3)])
    f, up, s = L.vars
    L.eq(dot(cross(f, up), up), Z)
    L.eq(dot(cross(f, up), f), Z)
    L.eq(dot(cross(s, f), up), dot(s, cross(f, up)))
    out.append(L)
    # handedness bridge between the Matrix3 (lh on -dir) and Matrix4 (rh) constructions: up x (-f) = f x up, (-f) x s = s x f
    L = Law('look_bridge', [('f', V3), ('up', V3), ('s', V3)])
    f, up, s = L.vars
    L.eq(cross(up, F['v3_neg'](f)), cross(f, up))
    L.eq(cross(F['v3_neg'](f), s), cross(s, f))
    out.append(L)
    # 2-D: unit first column b1, second column its perpendicular: orthonormal
    L = CertLaw('look_2d', [('b', V2)])
    b, = L.vars
    L.require_eq(F['v2_dot'](b, b), O)
    m = M[2](b, V2(-b.y, b.x))
    L.eq(F['m2_mul'](F['m2_transpose'](m), m), F['m2_identity']())
    L.eq(F['m2_det'](m), O)
    out.append(L)
    return out
