"""Rotations: angle / axis-angle constructors, Basis2/Basis3 (C06; used by C05, C07, C08, C09, C15)."""
import re
from common import *
from sym import R, B, Struct, SpecLib, Law, CertLaw, s_eq, lift
from c_vector import V, XYZW, comps
from c_matrix import M, cols, at
from c_quat import Q
from c_angle import Rad, Deg, fn1

V2, V3, V4 = V[2], V[3], V[4]
M2, M3, M4 = M[2], M[3], M[4]


class B2(Struct):
    TYPE = 'Basis2<Sc>'
    FIELDS = [('mat', M2)]


class B3(Struct):
    TYPE = 'Basis3<Sc>'
    FIELDS = [('mat', M3)]


def build(lib: SpecLib, F):
    Z, O = R.lit(0), R.lit(1)
    cross, dot, add, scale = F['v3_cross'], F['v3_dot'], F['v3_add'], F['v3_scale']
    # Rodrigues: v c + (a x v) s + a (a.v)(1 - c)      (the property's formula)
    F['rodrigues'] = lib.fn('rodrigues', [V3, R, R, V3], V3, argnames=['a', 's', 'c', 'v'])(
        lambda a, s, c, v: add(add(scale(v, c), scale(cross(a, v), s)), scale(a, dot(a, v) * (O - c))))
    ex, ey, ez = (lambda: V3(O, Z, Z)), (lambda: V3(Z, O, Z)), (lambda: V3(Z, Z, O))
    F['m3_axis_angle'] = lib.fn('m3_axis_angle', [V3, R, R], M3, argnames=['a', 's', 'c'])(
        lambda a, s, c: M3(F['rodrigues'](a, s, c, ex()), F['rodrigues'](a, s, c, ey()), F['rodrigues'](a, s, c, ez())))
    F['m4_axis_angle'] = lib.fn('m4_axis_angle', [V3, R, R], M4, argnames=['a', 's', 'c'])(
        lambda a, s, c: F['m4_from_m3'](F['m3_axis_angle'](a, s, c)))
    # 2-D: (1,0) -> (c, s), (0,1) -> (-s, c)
    F['m2_rot'] = lib.fn('m2_rot', [R, R], M2, argnames=['s', 'c'])(lambda s, c: M2(V2(c, s), V2(-s, c)))
    for ax, e in (('x', ex), ('y', ey), ('z', ez)):
        F['m3_rot_' + ax] = lib.fn('m3_rot_' + ax, [R, R], M3, argnames=['s', 'c'])(lambda s, c, e=e: F['m3_axis_angle'](e(), s, c))
        F['m4_rot_' + ax] = lib.fn('m4_rot_' + ax, [R, R], M4, argnames=['s', 'c'])(lambda s, c, e=e: F['m4_axis_angle'](e(), s, c))
    # quaternion from axis and *half*-angle sine/cosine
    F['q_axis_angle'] = lib.fn('q_axis_angle', [V3, R, R], Q, argnames=['a', 'sh', 'ch'])(lambda a, sh, ch: Q(scale(a, sh), ch))
    return F


def code_axis_angle(a, s, c, n):
    """the matrix in the shape Matrix3/4::from_axis_angle computes it"""
    O, Z = R.lit(1), R.lit(0)
    k = O - c
    e = [[k * a.x * a.x + c, k * a.x * a.y + s * a.z, k * a.x * a.z - s * a.y],
         [k * a.x * a.y - s * a.z, k * a.y * a.y + c, k * a.y * a.z + s * a.x],
         [k * a.x * a.z + s * a.y, k * a.y * a.z - s * a.x, k * a.z * a.z + c]]
    if n == 3:
        return M3(*[V3(*col) for col in e])
    return M4(*[V4(*(col + [Z])) for col in e], V4(Z, Z, Z, O))


def code_rot(ax, s, c, n):
    O, Z = R.lit(1), R.lit(0)
    e = {'x': [[O, Z, Z], [Z, c, s], [Z, -s, c]],
         'y': [[c, Z, -s], [Z, O, Z], [s, Z, c]],
         'z': [[c, s, Z], [-s, c, Z], [Z, Z, O]]}[ax]
    if n == 3:
        return M3(*[V3(*col) for col in e])
    return M4(*[V4(*(col + [Z])) for col in e], V4(Z, Z, Z, O))


def shape_hints(F):
    """pure identities: code-shaped constructor == spec (columns = Rodrigues images of the basis vectors)"""
    hints, polys = {}, []
    for n in (3, 4):
        L = Law('m%d_axis_angle_shape' % n, [('a', V3), ('s', R), ('c', R)])
        a, s, c = L.vars
        L.eq(code_axis_angle(a, s, c, n), F['m%d_axis_angle' % n](a, s, c))
        polys.append(L.render()[1])
        hints[('axis', n)] = L
        for ax in 'xyz':
            L = Law('m%d_rot_%s_shape' % (n, ax), [('s', R), ('c', R)])
            s, c = L.vars
            L.eq(code_rot(ax, s, c, n), F['m%d_rot_%s' % (n, ax)](s, c))
            polys.append(L.render()[1])
            hints[(ax, n)] = L
    return hints, polys


def hint_call(L, names):
    """call text of a shape law (its struct-level form `law_<name>`: the code-shaped side is then present as model-scalar
    terms, which the ring lemmas can rewrite) with its parameters bound to parameter / spec expressions"""
    return 'law_%s(%s);' % (L.name, ', '.join(names[nm] for (nm, cls) in L.params))


ROTS = r"(&'[a-z]+ )?(Basis2|Basis3)<S>"


def contracts(hints, angle_kind):
    def to_rad(x):
        return x if angle_kind == 'Rad' else 'deg_to_rad(%s)' % x

    def sc(x):
        r = to_rad(x)
        return 'rad_sin(%s)' % r, 'rad_cos(%s)' % r

    def half(x):
        r = 'rad_scale(%s, s_lit(1real / 2real))' % to_rad(x)
        return 'rad_sin(%s)' % r, 'rad_cos(%s)' % r

    def fn(unit, im, f):
        if im is None:
            return None
        st, self_ref = base_type(im.selfty)
        tn = trait_name(im.trait)
        ta = trait_args(im.trait)
        name = f.name
        selfx = deref('self', self_ref)
        if st in ('Matrix2', 'Matrix3', 'Matrix4') and tn is None:
            n = int(st[-1])
            if name == 'from_angle' and n == 2:
                s, c = sc('$0')
                return Contract(ensures=['ret == m2_rot(%s, %s)' % (s, c)])
            m = re.fullmatch(r'from_angle_([xyz])', name)
            if m and n in (3, 4):
                s, c = sc('$0')
                return Contract(ensures=['ret == m%d_rot_%s(%s, %s)' % (n, m.group(1), s, c)],
                                pre=hint_call(hints[(m.group(1), n)], {'s': s, 'c': c}), tags=('identity',))
            if name == 'from_axis_angle' and n in (3, 4):
                s, c = sc('$1')
                return Contract(ensures=['ret == m%d_axis_angle($0, %s, %s)' % (n, s, c)],
                                pre=hint_call(hints[('axis', n)], {'a': '$0', 's': s, 'c': c}), tags=('identity',))
            return None
        if st == 'Quaternion' and tn == 'Rotation3':
            if name == 'from_axis_angle':
                sh, ch = half('$1')
                return Contract(ensures=['ret == q_axis_angle($0, %s, %s)' % (sh, ch)])
            m = re.fullmatch(r'from_angle_([xyz])', name)
            if m:
                sh, ch = half('$0')
                k = 'xyz'.index(m.group(1))
                e = 'v3_new(%s)' % ', '.join('s_one()' if i == k else 's_zero()' for i in range(3))
                return Contract(ensures=['ret == q_axis_angle(%s, %s, %s)' % (e, sh, ch)])
            return None
        if st in ('Basis2', 'Basis3'):
            n = int(st[-1])
            mp = 'm%d' % n
            if tn == 'Clone' and name == 'clone':
                return Contract(ensures=['ret == *self'])
            if tn == 'AsRef' and name == 'as_ref':
                return Contract(ensures=['*ret == self.mat'])
            if tn == 'One' and name == 'one':
                return Contract(ensures=['ret.mat == %s_identity()' % mp])
            if tn == 'Mul':
                _, rref = base_type(ta)
                return Contract(ensures=['ret.mat == %s_mul((%s).mat, (%s).mat)' % (mp, selfx, deref('$1', rref))],
                                spec='Basis%d { mat: %s_mul((%s).mat, (%s).mat) }' % (n, mp, selfx, deref('rhs', rref)))
            if tn == 'Rotation':
                if name == 'rotate_vector':
                    return Contract(ensures=['ret == %s_mulv(self.mat, $1)' % mp])
                if name == 'rotate_point':
                    return Contract(ensures=['ret == p%d_from_vec(%s_mulv(self.mat, p%d_to_vec($1)))' % (n, mp, n)])
                if name == 'invert':
                    return Contract(ensures=['%s_mul(self.mat, ret.mat) == %s_identity()' % (mp, mp), '%s_mul(ret.mat, self.mat) == %s_identity()' % (mp, mp)])
                return None
            if tn == 'Rotation2' and name == 'from_angle':
                s, c = sc('$0')
                return Contract(ensures=['ret.mat == m2_rot(%s, %s)' % (s, c)])
            if tn == 'Rotation3':
                if name == 'from_axis_angle':
                    s, c = sc('$1')
                    return Contract(ensures=['ret.mat == m3_axis_angle($0, %s, %s)' % (s, c)])
                m = re.fullmatch(r'from_angle_([xyz])', name)
                if m:
                    s, c = sc('$0')
                    return Contract(ensures=['ret.mat == m3_rot_%s(%s, %s)' % (m.group(1), s, c)])
        if tn == 'From' and st in ('Matrix2', 'Matrix3') and re.fullmatch(r'Basis[23]<S>', ta.strip()):
            return Contract(ensures=['ret == $0.mat'], spec='v.mat')
        return None
    return fn


def select_c06(unit):
    from c_quat import QT
    from c_matrix import MAT
    unit.select(
        Sel(None, r'Matrix2<S>', ['from_angle']),
        Sel(None, r'Matrix[34]<S>', ['from_angle_x', 'from_angle_y', 'from_angle_z', 'from_axis_angle']),
        Sel('Rotation3', QT, ['from_axis_angle', 'from_angle_x', 'from_angle_y', 'from_angle_z']),
        Sel('Clone', ROTS), Sel('Copy', ROTS), Sel('One', ROTS), Sel('Mul', ROTS), Sel('AsRef', ROTS),
        Sel('Rotation', ROTS, ['rotate_vector', 'rotate_point', 'invert']),
        Sel('Rotation2', ROTS, ['from_angle']),
        Sel('Rotation3', ROTS, ['from_axis_angle', 'from_angle_x', 'from_angle_y', 'from_angle_z']),
        Sel('From', r'Matrix[23]<S>', trait_args=r'Basis[23]<S>'),
    )
    unit.trait_extras['Rotation'] = dict(
        decl_items='spec fn inv_ok(&self) -> bool;',
        requires={'invert': ['$0.inv_ok()']},
        impl_items=lambda im: ('open spec fn inv_ok(&self) -> bool { true }' if 'Quaternion' in im.selfty else
                               'open spec fn inv_ok(&self) -> bool { m%s_det(self.mat)@ != 0real }' % base_type(im.selfty)[0][-1]))


def laws(F):
    out = []
    rod, axm = F['rodrigues'], F['m3_axis_angle']
    # action of the matrix is Rodrigues' formula for every v (no unit hypothesis needed)
    L = Law('axis_angle_action', [('a', V3), ('s', R), ('c', R), ('v', V3)])
    a, s, c, v = L.vars
    L.eq(F['m3_mulv'](axm(a, s, c), v), rod(a, s, c, v))
    L.eq(F['m4_transform_vector3'](F['m4_axis_angle'](a, s, c), v), rod(a, s, c, v))
    out.append(L)
    # unit axis, s^2 + c^2 = 1: fixes a, orthonormal, det +1
    L = CertLaw('axis_angle_proper', [('a', V3), ('s', R), ('c', R)])
    a, s, c = L.vars
    L.require_eq(F['v3_dot'](a, a), R.lit(1))
    L.require_eq(s * s + c * c, R.lit(1))
    L.eq(rod(a, s, c, a), a)
    L.eq(F['m3_mul'](F['m3_transpose'](axm(a, s, c)), axm(a, s, c)), F['m3_identity']())
    L.eq(F['m3_det'](axm(a, s, c)), R.lit(1))
    out.append(L)
    # quaternion form agrees with the matrix form (half-angle sine/cosine sh, ch)
    L = CertLaw('q_axis_angle_action', [('a', V3), ('sh', R), ('ch', R), ('v', V3)])
    a, sh, ch, v = L.vars
    L.require_eq(F['v3_dot'](a, a), R.lit(1))
    L.require_eq(sh * sh + ch * ch, R.lit(1))
    L.eq(F['q_rotv'](F['q_axis_angle'](a, sh, ch), v), rod(a, R.lit(2) * sh * ch, ch * ch - sh * sh, v))
    out.append(L)
    # angles add about a common (unit) axis
    L = CertLaw('axis_angle_compose', [('a', V3), ('s1', R), ('c1', R), ('s2', R), ('c2', R)])
    a, s1, c1, s2, c2 = L.vars
    L.require_eq(F['v3_dot'](a, a), R.lit(1))
    L.eq(F['m3_mul'](axm(a, s1, c1), axm(a, s2, c2)), axm(a, s1 * c2 + c1 * s2, c1 * c2 - s1 * s2))
    out.append(L)
    L = Law('rot2', [('s1', R), ('c1', R), ('s2', R), ('c2', R)])
    s1, c1, s2, c2 = L.vars
    L.eq(F['m2_mulv'](F['m2_rot'](s1, c1), V2(1, 0)), V2(c1, s1))
    L.eq(F['m2_mulv'](F['m2_rot'](s1, c1), V2(0, 1)), V2(-s1, c1))
    L.eq(F['m2_mul'](F['m2_rot'](s1, c1), F['m2_rot'](s2, c2)), F['m2_rot'](s1 * c2 + c1 * s2, c1 * c2 - s1 * s2))
    out.append(L)
    return out


def handwritten_laws():
    return '''
// sin/cos of the actual angles satisfy the hypotheses of the laws above (A3)
pub proof fn law_trig_instances(x: real, y: real)
    ensures r_sin(x) * r_sin(x) + r_cos(x) * r_cos(x) == 1real,
        r_sin(x + y) == r_sin(x) * r_cos(y) + r_cos(x) * r_sin(y),
        r_cos(x + y) == r_cos(x) * r_cos(y) - r_sin(x) * r_sin(y),
        r_sin(x + x) == 2real * r_sin(x) * r_cos(x),
        r_cos(x + x) == r_cos(x) * r_cos(x) - r_sin(x) * r_sin(x),
{
    ax_pythagoras(x); ax_sin_add(x, y); ax_cos_add(x, y); ax_sin_add(x, x); ax_cos_add(x, x);
    assert(r_sin(x) * r_cos(x) + r_cos(x) * r_sin(x) == 2real * r_sin(x) * r_cos(x)) by(nonlinear_arith);
}
'''
