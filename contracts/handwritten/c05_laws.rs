// ---- C05 round trip: for a unit quaternion q, converting its matrix back returns q or -q in each of the four branches
pub proof fn lemma_sq_nonneg05(x: real) ensures x * x >= 0real { assert(x * x >= 0real) by(nonlinear_arith); }
pub proof fn lemma_pivot_sqrt(p: real)
    requires p != 0real
    ensures p > 0real ==> r_sqrt((4real * p) * p) == 2real * p, p < 0real ==> r_sqrt((4real * p) * p) == 0real - 2real * p,
{
    let a = if p > 0real { 2real * p } else { 0real - 2real * p };
    assert(a * a == (4real * p) * p) by(nonlinear_arith) requires a == 2real * p || a == 0real - 2real * p;
    lemma_sq_nonneg05(a);
    ax_sqrt(a * a);
    let r = r_sqrt(a * a);
    assert(r == a) by(nonlinear_arith) requires r * r == a * a, r >= 0real, a >= 0real;
}
pub proof fn lemma_pivot(p: real, c: real)
    requires p != 0real
    ensures ({
        let r = r_sqrt((4real * p) * p);
        let k = (1real / 2real) / r;
        &&& p > 0real ==> (1real / 2real) * r == p && ((4real * c) * p) * k == c
        &&& p < 0real ==> (1real / 2real) * r == 0real - p && ((4real * c) * p) * k == 0real - c
    }),
{
    lemma_pivot_sqrt(p);
    let r = r_sqrt((4real * p) * p);
    let k = (1real / 2real) / r;
    assert(r != 0real);
    lemma_div_mul(1real / 2real, r);
    assert(r * k == 1real / 2real);
    if p > 0real {
        assert(((4real * c) * p) * k == c) by(nonlinear_arith) requires (2real * p) * k == 1real / 2real;
    } else {
        assert(((4real * c) * p) * k == 0real - c) by(nonlinear_arith) requires (0real - 2real * p) * k == 1real / 2real;
    }
}
pub proof fn law_q_roundtrip(q: Quaternion<Sc>)
    requires q_magnitude2(q)@ == 1real
    ensures q_from_m3(m3_from_q(q)) == q || q_from_m3(m3_from_q(q)) == q_neg(q),
{
    let m = m3_from_q(q);
    let (s, x, y, z) = (q.s@, q.v.x@, q.v.y@, q.v.z@);
    law_m_from_q_entries(q);
    lemma_sq_nonneg05(s); lemma_sq_nonneg05(x); lemma_sq_nonneg05(y); lemma_sq_nonneg05(z);
    let trace = m.x.x@ + (m.y.y@ + m.z.z@);
    assert(1real + trace == (4real * s) * s);
    assert((m.x.x@ - m.y.y@ - m.z.z@) + 1real == (4real * x) * x);
    assert((m.y.y@ - m.x.x@ - m.z.z@) + 1real == (4real * y) * y);
    assert((m.z.z@ - m.x.x@ - m.y.y@) + 1real == (4real * z) * z);
    assert(s * s + (x * x + (y * y + z * z)) == 1real);
    let r0 = q_from_m3(m);
    let h = 1real / 2real;
    if 0real <= trace {
        assert(s != 0real) by(nonlinear_arith) requires (4real * s) * s >= 1real;
        lemma_pivot(s, x); lemma_pivot(s, y); lemma_pivot(s, z);
        let rt = r_sqrt((4real * s) * s);
        assert(r_sqrt(1real + trace) == rt);
        assert(r0.s@ == h * rt);
        assert(r0.v.x@ == ((4real * x) * s) * (h / rt));
        assert(r0.v.y@ == ((4real * y) * s) * (h / rt));
        assert(r0.v.z@ == ((4real * z) * s) * (h / rt));
        if s > 0real { assert(r0 == q); } else { assert(r0 == q_neg(q)); }
    } else if m.y.y@ < m.x.x@ && m.z.z@ < m.x.x@ {
        assert((4real * x) * x - (4real * y) * y == 2real * (m.x.x@ - m.y.y@));
        assert(x != 0real) by(nonlinear_arith) requires (4real * x) * x > (4real * y) * y, y * y >= 0real;
        lemma_pivot(x, y); lemma_pivot(x, z); lemma_pivot(x, s);
        let rt = r_sqrt((4real * x) * x);
        assert(r_sqrt((m.x.x@ - m.y.y@ - m.z.z@) + 1real) == rt);
        assert(r0.v.x@ == h * rt);
        assert(r0.v.y@ == ((4real * x) * y) * (h / rt));
        assert(r0.v.z@ == ((4real * x) * z) * (h / rt));
        assert(r0.s@ == ((4real * x) * s) * (h / rt));
        assert((4real * x) * y == (4real * y) * x) by(nonlinear_arith);
        assert((4real * x) * z == (4real * z) * x) by(nonlinear_arith);
        assert((4real * x) * s == (4real * s) * x) by(nonlinear_arith);
        if x > 0real { assert(r0 == q); } else { assert(r0 == q_neg(q)); }
    } else if m.z.z@ < m.y.y@ {
        assert((4real * y) * y - (4real * z) * z == 2real * (m.y.y@ - m.z.z@));
        assert(y != 0real) by(nonlinear_arith) requires (4real * y) * y > (4real * z) * z, z * z >= 0real;
        lemma_pivot(y, x); lemma_pivot(y, z); lemma_pivot(y, s);
        let rt = r_sqrt((4real * y) * y);
        assert(r_sqrt((m.y.y@ - m.x.x@ - m.z.z@) + 1real) == rt);
        assert(r0.v.y@ == h * rt);
        assert(r0.v.x@ == ((4real * x) * y) * (h / rt));
        assert(r0.v.z@ == ((4real * y) * z) * (h / rt));
        assert(r0.s@ == ((4real * y) * s) * (h / rt));
        assert((4real * y) * z == (4real * z) * y) by(nonlinear_arith);
        assert((4real * y) * s == (4real * s) * y) by(nonlinear_arith);
        if y > 0real { assert(r0 == q); } else { assert(r0 == q_neg(q)); }
    } else {
        assert((4real * z) * z - (4real * y) * y == 2real * (m.z.z@ - m.y.y@));
        assert((4real * x) * x - (4real * y) * y == 2real * (m.x.x@ - m.y.y@));
        assert((4real * x) * x - (4real * z) * z == 2real * (m.x.x@ - m.z.z@));
        assert(z != 0real) by(nonlinear_arith)
            requires (4real * z) * z >= (4real * y) * y, y * y >= 0real, (4real * s) * s < 1real, s * s + (x * x + (y * y + z * z)) == 1real,
                !((4real * x) * x > (4real * y) * y && (4real * x) * x > (4real * z) * z), x * x >= 0real;
        lemma_pivot(z, x); lemma_pivot(z, y); lemma_pivot(z, s);
        let rt = r_sqrt((4real * z) * z);
        assert(r_sqrt((m.z.z@ - m.x.x@ - m.y.y@) + 1real) == rt);
        assert(r0.v.z@ == h * rt);
        assert(r0.v.x@ == ((4real * x) * z) * (h / rt));
        assert(r0.v.y@ == ((4real * y) * z) * (h / rt));
        assert(r0.s@ == ((4real * z) * s) * (h / rt));
        assert((4real * z) * s == (4real * s) * z) by(nonlinear_arith);
        if z > 0real { assert(r0 == q); } else { assert(r0 == q_neg(q)); }
    }
}
