pub proof fn p_scaled_norm3(x: real, y: real, z: real, k: real)
    ensures ((x * k) * (x * k)) + (((y * k) * (y * k)) + ((z * k) * (z * k))) == ((x * x) + ((y * y) + (z * z))) * (k * k),
{
    assert(((x * k) * (x * k)) + (((y * k) * (y * k)) + ((z * k) * (z * k))) == ((x * x) + ((y * y) + (z * z))) * (k * k)) by(nonlinear_arith);
}
pub proof fn p_scaled_dot3(x: real, y: real, z: real, u: real, v: real, w: real, k: real)
    ensures ((x * k) * u) + (((y * k) * v) + ((z * k) * w)) == ((x * u) + ((y * v) + (z * w))) * k,
{
    assert(((x * k) * u) + (((y * k) * v) + ((z * k) * w)) == ((x * u) + ((y * v) + (z * w))) * k) by(nonlinear_arith);
}
