pub proof fn p_scaled_norm(p: real, x: real, y: real, z: real, k: real)
    ensures ((p * k) * (p * k)) + (((x * k) * (x * k)) + (((y * k) * (y * k)) + ((z * k) * (z * k)))) == (k * k) * ((p * p) + ((x * x) + ((y * y) + (z * z)))),
{
    assert(((p * k) * (p * k)) + (((x * k) * (x * k)) + (((y * k) * (y * k)) + ((z * k) * (z * k)))) == (k * k) * ((p * p) + ((x * x) + ((y * y) + (z * z))))) by(nonlinear_arith);
}
pub proof fn p_dot_scale(p: real, x: real, y: real, z: real, q: real, u: real, v: real, w: real, k: real)
    ensures (p * (q * k)) + ((x * (u * k)) + ((y * (v * k)) + (z * (w * k)))) == ((p * q) + ((x * u) + ((y * v) + (z * w)))) * k,
{
    assert((p * (q * k)) + ((x * (u * k)) + ((y * (v * k)) + (z * (w * k)))) == ((p * q) + ((x * u) + ((y * v) + (z * w)))) * k) by(nonlinear_arith);
}
