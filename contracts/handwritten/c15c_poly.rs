pub proof fn p_scaled_norm4_15(p: real, x: real, y: real, z: real, k: real)
    ensures ((p * k) * (p * k)) + (((x * k) * (x * k)) + (((y * k) * (y * k)) + ((z * k) * (z * k)))) == ((p * p) + ((x * x) + ((y * y) + (z * z)))) * (k * k),
{
    assert(((p * k) * (p * k)) + (((x * k) * (x * k)) + (((y * k) * (y * k)) + ((z * k) * (z * k)))) == ((p * p) + ((x * x) + ((y * y) + (z * z)))) * (k * k)) by(nonlinear_arith);
}
pub proof fn p_arc_scale_15(ax: real, ay: real, az: real, bx: real, by: real, bz: real, ls: real, ld: real)
    ensures ((ax * ls) * (bx * ld)) + (((ay * ls) * (by * ld)) + ((az * ls) * (bz * ld))) == ((ax * bx) + ((ay * by) + (az * bz))) * (ls * ld),
        ((ay * ls) * (bz * ld)) - ((az * ls) * (by * ld)) == ((ay * bz) - (az * by)) * (ls * ld),
        ((az * ls) * (bx * ld)) - ((ax * ls) * (bz * ld)) == ((az * bx) - (ax * bz)) * (ls * ld),
        ((ax * ls) * (by * ld)) - ((ay * ls) * (bx * ld)) == ((ax * by) - (ay * bx)) * (ls * ld),
{
    assert(((ax * ls) * (bx * ld)) + (((ay * ls) * (by * ld)) + ((az * ls) * (bz * ld))) == ((ax * bx) + ((ay * by) + (az * bz))) * (ls * ld)) by(nonlinear_arith);
    assert(((ay * ls) * (bz * ld)) - ((az * ls) * (by * ld)) == ((ay * bz) - (az * by)) * (ls * ld)) by(nonlinear_arith);
    assert(((az * ls) * (bx * ld)) - ((ax * ls) * (bz * ld)) == ((az * bx) - (ax * bz)) * (ls * ld)) by(nonlinear_arith);
    assert(((ax * ls) * (by * ld)) - ((ay * ls) * (bx * ld)) == ((ax * by) - (ay * bx)) * (ls * ld)) by(nonlinear_arith);
}
