// ---- C11: the 3-D angle is symmetric and lies in [0, pi]
pub proof fn lemma_neg_sq11(a: real, b: real) requires b == 0real - a ensures b * b == a * a { assert(b * b == a * a) by(nonlinear_arith) requires b == 0real - a; }
pub proof fn law_v3_angle_sym_range(u: Vector3<Sc>, v: Vector3<Sc>)
    ensures v3_angle(u, v) == v3_angle(v, u),
        0real <= v3_angle(u, v).0@ <= r_pi(),
{
    broadcast use {s_mul_comm, s_add_comm};
    let c = v3_cross(u, v);
    let d = v3_cross(v, u);
    assert(d.x@ == 0real - c.x@ && d.y@ == 0real - c.y@ && d.z@ == 0real - c.z@);
    lemma_neg_sq11(c.x@, d.x@); lemma_neg_sq11(c.y@, d.y@); lemma_neg_sq11(c.z@, d.z@);
    assert(v3_dot(d, d) == v3_dot(c, c));
    assert(v3_dot(v, u) == v3_dot(u, v));
    lemma_sq_nonneg(c.x@); lemma_sq_nonneg(c.y@); lemma_sq_nonneg(c.z@);
    ax_sqrt(v3_dot(c, c)@);
    ax_atan2(v3_magnitude(c)@, v3_dot(u, v)@);
    ax_atan2_nonneg(v3_magnitude(c)@, v3_dot(u, v)@);
}
