// Basis3 conversion respects composition: the Basis3 of p * q is the product of the Basis3 of p and of q
// (Basis3 * Basis3 is the matrix product of the wrapped matrices by its contract)
pub proof fn law_basis3_compose(p: Quaternion<Sc>, q: Quaternion<Sc>)
    requires q_magnitude2(p)@ == 1real, q_magnitude2(q)@ == 1real
    ensures (Basis3 { mat: m3_from_q(q_mul(p, q)) }) == (Basis3 { mat: m3_mul((Basis3 { mat: m3_from_q(p) }).mat, (Basis3 { mat: m3_from_q(q) }).mat) }),
{
    law_m_from_q_compose(p, q);
}
