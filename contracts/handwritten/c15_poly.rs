pub proof fn p_scaled_norm3_15(x: real, y: real, z: real, k: real)
    ensures ((x * k) * (x * k)) + (((y * k) * (y * k)) + ((z * k) * (z * k))) == ((x * x) + ((y * y) + (z * z))) * (k * k),
{
    assert(((x * k) * (x * k)) + (((y * k) * (y * k)) + ((z * k) * (z * k))) == ((x * x) + ((y * y) + (z * z))) * (k * k)) by(nonlinear_arith);
}
pub proof fn p_scaled_dot3_15(x: real, y: real, z: real, u: real, v: real, w: real, k: real)
    ensures ((x * k) * u) + (((y * k) * v) + ((z * k) * w)) == ((x * u) + ((y * v) + (z * w))) * k,
{
    assert(((x * k) * u) + (((y * k) * v) + ((z * k) * w)) == ((x * u) + ((y * v) + (z * w))) * k) by(nonlinear_arith);
}
pub proof fn p_cross_orth_15(ax: real, ay: real, az: real, ex: real, ey: real, ez: real)
    ensures ((ay * ez) - (az * ey)) * ax + ((((az * ex) - (ax * ez)) * ay) + (((ax * ey) - (ay * ex)) * az)) == 0real,
{
    assert(((ay * ez) - (az * ey)) * ax + ((((az * ex) - (ax * ez)) * ay) + (((ax * ey) - (ay * ex)) * az)) == 0real) by(nonlinear_arith);
}
