// ---- composed law of C09: the right-handed view matrix of (eye, dir, up), dir != 0, up not parallel to dir, is a rigid motion
// that sends eye to the origin, dir/|dir| to -z and up into the half-plane x = 0, y >= 0 (frame laws instantiated at the
// normalised frame of the documented construction)
pub proof fn lemma_sq_nonneg09(x: real) ensures x * x >= 0real { assert(x * x >= 0real) by(nonlinear_arith); }
pub proof fn lemma_scaled_norm3(x: real, y: real, z: real, k: real, n: real)
    requires (x * x) + ((y * y) + (z * z)) == n, n * (k * k) == 1real
    ensures ((x * k) * (x * k)) + (((y * k) * (y * k)) + ((z * k) * (z * k))) == 1real
{
    poly::p_scaled_norm3(x, y, z, k);
}
pub proof fn lemma_scaled_dot3(x: real, y: real, z: real, u: real, v: real, w: real, k: real)
    ensures ((x * k) * u) + (((y * k) * v) + ((z * k) * w)) == ((x * u) + ((y * v) + (z * w))) * k
{
    poly::p_scaled_dot3(x, y, z, u, v, w, k);
}
pub proof fn law_v3_normalize_unit(w: Vector3<Sc>)
    requires v3_dot(w, w)@ != 0real
    ensures v3_dot(v3_normalize(w), v3_normalize(w)) == s_one(),
        v3_normalize(w) == v3_scale(w, s_div(s_one(), v3_magnitude(w))),
        s_div(s_one(), v3_magnitude(w))@ > 0real,
{
    let d = v3_dot(w, w)@;
    lemma_sq_nonneg09(w.x@); lemma_sq_nonneg09(w.y@); lemma_sq_nonneg09(w.z@);
    assert(d == (w.x@ * w.x@) + ((w.y@ * w.y@) + (w.z@ * w.z@)));
    ax_sqrt(d);
    let m = v3_magnitude(w)@;
    assert(m * m == d);
    assert(m != 0real) by(nonlinear_arith) requires m * m == d, d != 0real;
    assert(m > 0real);
    let k = 1real / m;
    lemma_div_mul(1real, m);
    assert(k > 0real) by(nonlinear_arith) requires m * k == 1real, m > 0real;
    assert(d * (k * k) == 1real) by(nonlinear_arith) requires m * m == d, m * k == 1real;
    lemma_scaled_norm3(w.x@, w.y@, w.z@, k, d);
}
pub open spec fn look_f(dir: Vector3<Sc>) -> Vector3<Sc> { v3_normalize(dir) }
pub open spec fn look_s(dir: Vector3<Sc>, up: Vector3<Sc>) -> Vector3<Sc> { v3_normalize(v3_cross(look_f(dir), up)) }
pub open spec fn m4_upper3(m: Matrix4<Sc>) -> Matrix3<Sc> {
    Matrix3 { x: Vector3 { x: m.x.x, y: m.x.y, z: m.x.z }, y: Vector3 { x: m.y.x, y: m.y.y, z: m.y.z }, z: Vector3 { x: m.z.x, y: m.z.y, z: m.z.z } }
}
pub proof fn law_look_to_rh(eye: Point3<Sc>, dir: Vector3<Sc>, up: Vector3<Sc>)
    requires v3_dot(dir, dir)@ != 0real,
        v3_dot(v3_cross(look_f(dir), up), v3_cross(look_f(dir), up))@ != 0real,
    ensures ({
        let m = m4_look_to_rh(eye, dir, up);
        let r = m4_upper3(m);
        &&& m3_mul(m3_transpose(r), r) == m3_identity()
        &&& m3_det(r) == s_one()
        &&& m3_mulv(r, look_f(dir)) == (Vector3 { x: s_zero(), y: s_zero(), z: s_neg(s_one()) })
        &&& m4_transform_point3(m, eye) == (Point3 { x: s_zero(), y: s_zero(), z: s_zero() })
        &&& m3_mulv(r, up).x == s_zero()
        &&& m3_mulv(r, up).y@ >= 0real
        &&& m.x.w == s_zero() && m.y.w == s_zero() && m.z.w == s_zero() && m.w.w == s_one()
    }),
{
    let f = look_f(dir);
    let c = v3_cross(f, up);
    let s = look_s(dir, up);
    law_v3_normalize_unit(dir);
    law_v3_normalize_unit(c);
    let k = s_div(s_one(), v3_magnitude(c));
    assert(s == v3_scale(c, k));
    law_look_up(f, up, s);
    // s . f = ((f x up) . f) k = 0
    lemma_scaled_dot3(c.x@, c.y@, c.z@, f.x@, f.y@, f.z@, k@);
    assert(v3_dot(c, f)@ == 0real);
    assert(v3_dot(s, f)@ == v3_dot(c, f)@ * k@);
    assert(v3_dot(s, f)@ == 0real);
    assert(v3_dot(f, f)@ == 1real);
    assert(v3_dot(s, s)@ == 1real);
    law_look_frame(f, s, eye, up);
    let u = v3_cross(s, f);
    // image of up: x = s . up = ((f x up) . up) k = 0 ; y = u . up = s . (f x up) = k |f x up|^2 >= 0
    lemma_scaled_dot3(c.x@, c.y@, c.z@, up.x@, up.y@, up.z@, k@);
    assert(v3_dot(s, up)@ == v3_dot(c, up)@ * k@);
    assert(v3_dot(s, up)@ == 0real);
    lemma_scaled_dot3(c.x@, c.y@, c.z@, c.x@, c.y@, c.z@, k@);
    assert(v3_dot(s, c)@ == v3_dot(c, c)@ * k@);
    lemma_sq_nonneg09(c.x@); lemma_sq_nonneg09(c.y@); lemma_sq_nonneg09(c.z@);
    assert(v3_dot(c, c)@ >= 0real);
    assert(v3_dot(c, c)@ * k@ >= 0real) by(nonlinear_arith) requires v3_dot(c, c)@ >= 0real, k@ > 0real;
    assert(v3_dot(u, up)@ >= 0real);
    let m = m4_look_to_rh(eye, dir, up);
    let r = m4_upper3(m);
    assert(r == (Matrix3 { x: (Vector3 { x: s.x, y: u.x, z: s_neg(f.x) }), y: (Vector3 { x: s.y, y: u.y, z: s_neg(f.y) }), z: (Vector3 { x: s.z, y: u.z, z: s_neg(f.z) }) }));
    assert(m3_mulv(r, up).x@ == v3_dot(s, up)@);
    assert(m3_mulv(r, up).y@ == v3_dot(u, up)@);
}
// the left-handed view matrix is the right-handed one of the reversed direction: dir goes to +z
pub proof fn lemma_neg_as_scale(v: Vector3<Sc>) ensures v3_neg(v) == v3_scale(v, s_neg(s_one())) {
    assert(v.x@ * (0real - 1real) == 0real - v.x@); assert(v.y@ * (0real - 1real) == 0real - v.y@); assert(v.z@ * (0real - 1real) == 0real - v.z@);
}
pub proof fn lemma_normalize_neg(d: Vector3<Sc>)
    requires v3_dot(d, d)@ != 0real
    ensures v3_normalize(v3_neg(d)) == v3_neg(v3_normalize(d)), v3_dot(v3_neg(d), v3_neg(d)) == v3_dot(d, d),
{
    assert((0real - d.x@) * (0real - d.x@) == d.x@ * d.x@) by(nonlinear_arith);
    assert((0real - d.y@) * (0real - d.y@) == d.y@ * d.y@) by(nonlinear_arith);
    assert((0real - d.z@) * (0real - d.z@) == d.z@ * d.z@) by(nonlinear_arith);
    assert(v3_dot(v3_neg(d), v3_neg(d)) == v3_dot(d, d));
    let k = s_div(s_one(), v3_magnitude(d));
    assert(s_div(s_one(), v3_magnitude(v3_neg(d))) == k);
    assert((0real - d.x@) * k@ == 0real - d.x@ * k@) by(nonlinear_arith);
    assert((0real - d.y@) * k@ == 0real - d.y@ * k@) by(nonlinear_arith);
    assert((0real - d.z@) * k@ == 0real - d.z@ * k@) by(nonlinear_arith);
}
pub proof fn law_look_to_lh(eye: Point3<Sc>, dir: Vector3<Sc>, up: Vector3<Sc>)
    requires v3_dot(dir, dir)@ != 0real,
        v3_dot(v3_cross(look_f(v3_neg(dir)), up), v3_cross(look_f(v3_neg(dir)), up))@ != 0real,
    ensures ({
        let m = m4_look_to_lh(eye, dir, up);
        let r = m4_upper3(m);
        &&& m3_mul(m3_transpose(r), r) == m3_identity()
        &&& m3_det(r) == s_one()
        &&& m3_mulv(r, look_f(dir)) == (Vector3 { x: s_zero(), y: s_zero(), z: s_one() })
        &&& m4_transform_point3(m, eye) == (Point3 { x: s_zero(), y: s_zero(), z: s_zero() })
        &&& m3_mulv(r, up).x == s_zero()
        &&& m3_mulv(r, up).y@ >= 0real
    }),
{
    lemma_normalize_neg(dir);
    law_look_to_rh(eye, v3_neg(dir), up);
    let m = m4_look_to_lh(eye, dir, up);
    let r = m4_upper3(m);
    let f = look_f(dir);
    assert(look_f(v3_neg(dir)) == v3_neg(f));
    lemma_neg_as_scale(f);
    law_m3_action(r, r, f, f, s_neg(s_one()));
    lemma_neg_as_scale(m3_mulv(r, f));
    assert(m3_mulv(r, v3_neg(f)) == v3_neg(m3_mulv(r, f)));
    let img = m3_mulv(r, f);
    assert(v3_neg(img) == (Vector3 { x: s_zero(), y: s_zero(), z: s_neg(s_one()) }));
    assert(img.x@ == 0real && img.y@ == 0real && img.z@ == 1real);
}
