pub open spec fn decb_inverse_with(a: Decomposed<Vector3<Sc>, Basis3<Sc>>, ri: Matrix3<Sc>) -> Decomposed<Vector3<Sc>, Basis3<Sc>> {
    Decomposed { scale: s_div(s_one(), a.scale), rot: (Basis3 { mat: ri }), disp: v3_scale(m3_mulv(ri, a.disp), s_neg(s_div(s_one(), a.scale))) }
}
#[verifier::external_body] // ASSUMED-CONTRACT (law proved in unit C08b3)
pub proof fn law_decb3_matrix_inverse(a: Decomposed<Vector3<Sc>, Basis3<Sc>>, ri: Matrix3<Sc>)
    requires m3_mul(a.rot.mat, ri) == m3_identity(), m3_mul(ri, a.rot.mat) == m3_identity(), a.scale@ != 0real
    ensures decb_concat(a, decb_inverse_with(a, ri)) == decb_one(),
        decb_concat(decb_inverse_with(a, ri), a) == decb_one(),
        m4_mul(decb_to_matrix(a), decb_to_matrix(decb_inverse_with(a, ri))) == m4_identity(),
        m4_mul(decb_to_matrix(decb_inverse_with(a, ri)), decb_to_matrix(a)) == m4_identity(),
{
}
// the matrix of the inverse transform is the inverse matrix (unit rotation, scale != 0)
pub proof fn law_decq_matrix_inverse(a: Decomposed<Vector3<Sc>, Quaternion<Sc>>)
    requires dec_unit(a), a.scale@ != 0real
    ensures m4_mul(dec_to_matrix(a), dec_to_matrix(dec_inverse(a))) == m4_identity(),
        m4_mul(dec_to_matrix(dec_inverse(a)), dec_to_matrix(a)) == m4_identity(),
{
    let q = a.rot;
    let qi = q_invert(q);
    let inv = dec_inverse(a);
    law_decq_undo(a, Point3 { x: s_zero(), y: s_zero(), z: s_zero() }, a.disp);
    assert(dec_unit(inv));
    law_q_inverse(q);
    law_m_from_q_compose(q, qi);
    law_m_from_q_compose(qi, q);
    assert(m3_from_q(q_one()) == m3_identity());
    let (m, ri) = (m3_from_q(q), m3_from_q(qi));
    assert(m3_mul(m, ri) == m3_identity());
    assert(m3_mul(ri, m) == m3_identity());
    law_m_from_q_action(qi, a.disp);
    assert(dec_as_b3(inv) == decb_inverse_with(dec_as_b3(a), ri));
    law_decq_bridge(a, inv, Point3 { x: s_zero(), y: s_zero(), z: s_zero() }, a.disp);
    law_decq_bridge(inv, a, Point3 { x: s_zero(), y: s_zero(), z: s_zero() }, a.disp);
    law_decb3_matrix_inverse(dec_as_b3(a), ri);
}
