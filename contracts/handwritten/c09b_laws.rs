// ---- C09: the rotation block of the Matrix4 view matrix IS the Matrix3 view rotation of the same handedness
pub proof fn lemma_normalize_of_unit(v: Vector3<Sc>) requires v3_dot(v, v)@ == 1real ensures v3_normalize(v) == v {
    ax_sqrt(1real);
    let r = r_sqrt(1real);
    assert(r == 1real) by(nonlinear_arith) requires r * r == 1real, r >= 0real;
    assert(v3_magnitude(v)@ == 1real);
    assert(s_div(s_one(), v3_magnitude(v))@ == 1real);
}
pub proof fn lemma_look_basis(dir: Vector3<Sc>, up: Vector3<Sc>)
    requires v3_dot(dir, dir)@ != 0real,
        v3_dot(v3_cross(look_f(dir), up), v3_cross(look_f(dir), up))@ != 0real,
    ensures v3_dot(look_f(dir), look_f(dir))@ == 1real, v3_dot(look_s(dir, up), look_s(dir, up))@ == 1real,
        v3_dot(look_s(dir, up), look_f(dir))@ == 0real,
{
    let f = look_f(dir);
    let c = v3_cross(f, up);
    let s = look_s(dir, up);
    law_v3_normalize_unit(dir);
    law_v3_normalize_unit(c);
    let k = s_div(s_one(), v3_magnitude(c));
    assert(s == v3_scale(c, k));
    law_look_up(f, up, s);
    lemma_scaled_dot3(c.x@, c.y@, c.z@, f.x@, f.y@, f.z@, k@);
    assert(v3_dot(c, f)@ == 0real);
    assert(v3_dot(s, f)@ == v3_dot(c, f)@ * k@);
    assert(v3_dot(s, f)@ == 0real);
}
pub proof fn law_look_agree(eye: Point3<Sc>, dir: Vector3<Sc>, up: Vector3<Sc>)
    requires v3_dot(dir, dir)@ != 0real,
        v3_dot(v3_cross(look_f(dir), up), v3_cross(look_f(dir), up))@ != 0real,
    ensures m4_upper3(m4_look_to_rh(eye, dir, up)) == m3_look_to_rh(dir, up),
        m4_upper3(m4_look_to_lh(eye, v3_neg(dir), up)) == m3_look_to_lh(v3_neg(dir), up),
{
    let f = look_f(dir);
    let c = v3_cross(f, up);
    let s = look_s(dir, up);
    lemma_look_basis(dir, up);
    law_look_frame(f, s, eye, up);
    let u = v3_cross(s, f);
    lemma_normalize_of_unit(u);
    lemma_normalize_neg(dir);
    let d = v3_normalize(v3_neg(dir));
    assert(d == v3_neg(f));
    law_look_bridge(f, up, s);
    assert(v3_cross(up, d) == c);
    let side = v3_normalize(v3_cross(up, d));
    assert(side == s);
    assert(v3_cross(d, side) == u);
    assert(v3_normalize(v3_cross(d, side)) == u);
    assert(v3_neg(v3_neg(dir)) == dir) by { assert(0real - (0real - dir.x@) == dir.x@); }
}
