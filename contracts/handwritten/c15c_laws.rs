// ---- C15, from_arc at arbitrary non-zero lengths (general branch): the result is a unit quaternion that rotates
// src/|src| onto dst/|dst| (reduction to the unit case: the pre-normalised quaternion scales by |src||dst|)
pub proof fn lemma_sqrt_unique15(r: real, x: real) requires r >= 0real, r * r == x ensures r_sqrt(x) == r {
    lemma_sq_nonneg15(r);
    ax_sqrt(x);
    let s = r_sqrt(x);
    assert(s == r) by(nonlinear_arith) requires s * s == x, r * r == x, s >= 0real, r >= 0real;
}
pub proof fn lemma_assoc_scale15(x: real, c: real, k1: real, k0: real) requires c * k1 == k0 ensures (x * c) * k1 == x * k0 {
    assert((x * c) * k1 == x * k0) by(nonlinear_arith) requires c * k1 == k0;
}
pub proof fn lemma_back15(x: real, k: real, l: real) requires l * k == 1real ensures (x * k) * l == x {
    assert((x * k) * l == x) by(nonlinear_arith) requires l * k == 1real;
}
pub proof fn law_between_unit_core(a: Vector3<Sc>, b: Vector3<Sc>)
    requires v3_dot(a, a)@ == 1real, v3_dot(b, b)@ == 1real, v3_dot(a, b)@ != 0real - 1real,
    ensures ({ let qq = q_from_sv(s_add(s_one(), v3_dot(a, b)), v3_cross(a, b));
        &&& q_rotv(q_normalize(qq), a) == b
        &&& q_magnitude2(q_normalize(qq)) == s_one()
        &&& q_magnitude2(qq)@ != 0real }),
{
    let d = v3_dot(a, b);
    let w = v3_cross(a, b);
    let qq = q_from_sv(s_add(s_one(), d), w);
    law_between_core(a, b);
    let n2 = q_magnitude2(qq)@;
    assert(v3_dot(w, w)@ == 1real - d@ * d@);
    assert(n2 == (1real + d@) * (1real + d@) + (1real - d@ * d@));
    lemma_sq_nonneg15(w.x@); lemma_sq_nonneg15(w.y@); lemma_sq_nonneg15(w.z@);
    assert(1real - d@ * d@ >= 0real);
    assert(d@ >= 0real - 1real) by(nonlinear_arith) requires 1real - d@ * d@ >= 0real;
    assert(1real + d@ > 0real);
    assert(n2 == 2real * (1real + d@)) by(nonlinear_arith) requires n2 == (1real + d@) * (1real + d@) + (1real - d@ * d@);
    assert(n2 != 0real);
    law_q_normalize_unit15(qq);
    let m = q_magnitude(qq);
    let kk = s_div(s_one(), m);
    lemma_div_mul(1real, m@);
    assert(m@ * kk@ == 1real);
    assert(m@ * m@ == n2);
    law_between_scalar(d, m, kk);
    law_between_norm(a, w, s_add(s_one(), d), kk);
    let e = s_add(s_one(), d);
    let f = s_mul(s_mul(s_lit(2real), kk), kk);
    assert(f@ * e@ == 1real);
    lemma_lerp_to(a.x@, b.x@, e@, f@); lemma_lerp_to(a.y@, b.y@, e@, f@); lemma_lerp_to(a.z@, b.z@, e@, f@);
    assert(q_scale(qq, kk) == q_normalize(qq));
}
pub proof fn lemma_norm_scale_invariant(q0: Quaternion<Sc>, c: Sc)
    requires c@ > 0real, q_magnitude2(q0)@ != 0real
    ensures q_normalize(q_scale(q0, c)) == q_normalize(q0),
{
    let n2 = q_magnitude2(q0)@;
    law_q_normalize_unit15(q0);
    let mq = q_magnitude(q0)@;
    poly::p_scaled_norm4_15(q0.s@, q0.v.x@, q0.v.y@, q0.v.z@, c@);
    let q1 = q_scale(q0, c);
    assert(q_magnitude2(q1)@ == n2 * (c@ * c@));
    lemma_sq_nonneg15(q0.s@); lemma_sq_nonneg15(q0.v.x@); lemma_sq_nonneg15(q0.v.y@); lemma_sq_nonneg15(q0.v.z@);
    ax_sqrt(n2);
    assert(mq > 0real);
    let r = c@ * mq;
    assert(r > 0real) by(nonlinear_arith) requires r == c@ * mq, c@ > 0real, mq > 0real;
    assert(r * r == n2 * (c@ * c@)) by(nonlinear_arith) requires r == c@ * mq, mq * mq == n2;
    lemma_sqrt_unique15(r, n2 * (c@ * c@));
    assert(q_magnitude(q1)@ == r);
    let (k1, k0) = (1real / r, 1real / mq);
    lemma_div_mul(1real, r); lemma_div_mul(1real, mq);
    assert(c@ * k1 == k0) by(nonlinear_arith) requires (c@ * mq) * k1 == 1real, mq * k0 == 1real;
    lemma_assoc_scale15(q0.s@, c@, k1, k0); lemma_assoc_scale15(q0.v.x@, c@, k1, k0); lemma_assoc_scale15(q0.v.y@, c@, k1, k0); lemma_assoc_scale15(q0.v.z@, c@, k1, k0);
    assert(q_scale(q1, sc(k1)) == q_scale(q0, sc(k0)));
}
pub proof fn law_from_arc_general(src: Vector3<Sc>, dst: Vector3<Sc>, fallback: Option<Vector3<Sc>>)
    requires v3_dot(src, src)@ != 0real, v3_dot(dst, dst)@ != 0real,
        v3_dot(v3_normalize(src), v3_normalize(dst))@ != 0real - 1real,
        !s_ulps_eq_default(v3_dot(src, dst), sc(r_sqrt(s_mul(v3_dot(src, src), v3_dot(dst, dst))@))),
        !s_ulps_eq_default(v3_dot(src, dst), s_neg(sc(r_sqrt(s_mul(v3_dot(src, src), v3_dot(dst, dst))@)))),
    ensures q_rotv(q_from_arc(src, dst, fallback), v3_normalize(src)) == v3_normalize(dst),
        q_magnitude2(q_from_arc(src, dst, fallback)) == s_one(),
{
    let (a, b) = (v3_normalize(src), v3_normalize(dst));
    law_v3_normalize_unit15(src);
    law_v3_normalize_unit15(dst);
    lemma_sq_nonneg15(src.x@); lemma_sq_nonneg15(src.y@); lemma_sq_nonneg15(src.z@);
    lemma_sq_nonneg15(dst.x@); lemma_sq_nonneg15(dst.y@); lemma_sq_nonneg15(dst.z@);
    let (s2, d2) = (v3_dot(src, src)@, v3_dot(dst, dst)@);
    ax_sqrt(s2); ax_sqrt(d2);
    let (ls, ld) = (v3_magnitude(src)@, v3_magnitude(dst)@);
    assert(ls != 0real) by(nonlinear_arith) requires ls * ls == s2, s2 != 0real;
    assert(ld != 0real) by(nonlinear_arith) requires ld * ld == d2, d2 != 0real;
    let c = ls * ld;
    assert(c > 0real) by(nonlinear_arith) requires c == ls * ld, ls > 0real, ld > 0real;
    assert(c * c == s2 * d2) by(nonlinear_arith) requires c == ls * ld, ls * ls == s2, ld * ld == d2;
    lemma_sqrt_unique15(c, s2 * d2);
    let m = sc(r_sqrt(s_mul(v3_dot(src, src), v3_dot(dst, dst))@));
    assert(m@ == c);
    // src = a * ls, dst = b * ld
    let (ka, kb) = (1real / ls, 1real / ld);
    lemma_div_mul(1real, ls); lemma_div_mul(1real, ld);
    lemma_back15(src.x@, ka, ls); lemma_back15(src.y@, ka, ls); lemma_back15(src.z@, ka, ls);
    lemma_back15(dst.x@, kb, ld); lemma_back15(dst.y@, kb, ld); lemma_back15(dst.z@, kb, ld);
    assert(v3_scale(a, sc(ls)) == src);
    assert(v3_scale(b, sc(ld)) == dst);
    poly::p_arc_scale_15(a.x@, a.y@, a.z@, b.x@, b.y@, b.z@, ls, ld);
    let q0 = q_from_sv(s_add(s_one(), v3_dot(a, b)), v3_cross(a, b));
    let qq = q_from_sv(s_add(m, v3_dot(src, dst)), v3_cross(src, dst));
    assert(v3_dot(src, dst)@ == v3_dot(a, b)@ * c);
    assert(qq.s@ == (1real + v3_dot(a, b)@) * c) by(nonlinear_arith) requires qq.s@ == c + v3_dot(a, b)@ * c;
    assert(qq == q_scale(q0, sc(c)));
    law_between_unit_core(a, b);
    lemma_norm_scale_invariant(q0, sc(c));
    assert(q_from_arc(src, dst, fallback) == q_normalize(qq));
}
// the rotation angle th of q = between_vectors(a, b) (cos(th/2) = q.s for a unit quaternion) satisfies cos th = 2 q.s^2 - 1 = a.b:
// it is the angle between a and b; the axis q.v is a positive multiple of a x b
pub proof fn law_between_angle(a: Vector3<Sc>, b: Vector3<Sc>)
    requires v3_dot(a, a)@ == 1real, v3_dot(b, b)@ == 1real, v3_dot(a, b)@ != 0real - 1real,
    ensures ({ let q = q_normalize(q_from_sv(s_add(s_one(), v3_dot(a, b)), v3_cross(a, b)));
        &&& 2real * (q.s@ * q.s@) - 1real == v3_dot(a, b)@
        &&& q.s@ > 0real
        &&& exists|k: Sc| k@ > 0real && q.v == v3_scale(v3_cross(a, b), k) }),
{
    let d = v3_dot(a, b);
    let w = v3_cross(a, b);
    let qq = q_from_sv(s_add(s_one(), d), w);
    law_between_unit_core(a, b);
    law_between_core(a, b);
    lemma_sq_nonneg15(w.x@); lemma_sq_nonneg15(w.y@); lemma_sq_nonneg15(w.z@);
    assert(v3_dot(w, w)@ == 1real - d@ * d@);
    assert(d@ >= 0real - 1real) by(nonlinear_arith) requires 1real - d@ * d@ >= 0real;
    let e = 1real + d@;
    assert(e > 0real);
    law_q_normalize_unit15(qq);
    let m = q_magnitude(qq)@;
    let kk = s_div(s_one(), q_magnitude(qq));
    lemma_div_mul(1real, m);
    let n2 = q_magnitude2(qq)@;
    assert(n2 == e * e + (1real - d@ * d@));
    assert(n2 == 2real * e) by(nonlinear_arith) requires n2 == e * e + (1real - d@ * d@), e == 1real + d@;
    lemma_sq_nonneg15(qq.s@); lemma_sq_nonneg15(qq.v.x@); lemma_sq_nonneg15(qq.v.y@); lemma_sq_nonneg15(qq.v.z@);
    ax_sqrt(n2);
    assert(m > 0real);
    assert(kk@ > 0real) by(nonlinear_arith) requires m * kk@ == 1real, m > 0real;
    let q = q_normalize(qq);
    assert(q == q_scale(qq, kk));
    assert(q.s@ == e * kk@);
    assert(q.s@ > 0real) by(nonlinear_arith) requires q.s@ == e * kk@, e > 0real, kk@ > 0real;
    assert(2real * ((e * kk@) * (e * kk@)) - 1real == d@) by(nonlinear_arith) requires m * m == 2real * e, m * kk@ == 1real, e == 1real + d@;
    assert(q.v == v3_scale(w, kk));
}
