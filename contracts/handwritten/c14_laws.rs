// ---- composed laws of C14 (pass A only): normalisation gives a unit value, nlerp / slerp are unit, lie on the ray of the
// weighted sum of a and the shorter-arc representative b', and hit the end points
pub proof fn lemma_sq_nonneg(x: real) ensures x * x >= 0real { assert(x * x >= 0real) by(nonlinear_arith); }
pub proof fn lemma_sqrt_of_square(s: real) requires s >= 0real ensures r_sqrt(s * s) == s {
    lemma_sq_nonneg(s);
    ax_sqrt(s * s);
    let r = r_sqrt(s * s);
    assert(r == s) by(nonlinear_arith) requires r * r == s * s, r >= 0real, s >= 0real;
}
pub proof fn lemma_scale_back(x: real, s: real) requires s != 0real ensures (x * s) * (1real / s) == x {
    lemma_div_mul(1real, s);
    assert((x * s) * (1real / s) == x) by(nonlinear_arith) requires s * (1real / s) == 1real;
}
pub proof fn lemma_scaled_norm(p: real, x: real, y: real, z: real, k: real)
    requires (p * p) + ((x * x) + ((y * y) + (z * z))) == 1real
    ensures ((p * k) * (p * k)) + (((x * k) * (x * k)) + (((y * k) * (y * k)) + ((z * k) * (z * k)))) == k * k
{
    poly::p_scaled_norm(p, x, y, z, k);
    let n = (p * p) + ((x * x) + ((y * y) + (z * z)));
    assert((k * k) * n == k * k) by(nonlinear_arith) requires n == 1real;
}
pub proof fn law_q_normalize_unit(w: Quaternion<Sc>)
    requires q_magnitude2(w)@ != 0real
    ensures q_magnitude2(q_normalize(w)) == s_one(),
        q_scale(q_normalize(w), q_magnitude(w)) == w,
        q_magnitude(w)@ > 0real,
{
    let d = q_magnitude2(w)@;
    lemma_sq_nonneg(w.s@); lemma_sq_nonneg(w.v.x@); lemma_sq_nonneg(w.v.y@); lemma_sq_nonneg(w.v.z@);
    assert(d == (w.s@ * w.s@) + ((w.v.x@ * w.v.x@) + ((w.v.y@ * w.v.y@) + (w.v.z@ * w.v.z@))));
    ax_sqrt(d);
    let m = q_magnitude(w);
    assert(m@ == r_sqrt(d));
    assert(m@ * m@ == d);
    assert(m@ != 0real) by(nonlinear_arith) requires m@ * m@ == d, d != 0real;
    law_q_normalize(w, m);
}
// a unit quaternion scaled by a positive factor normalises back to itself
pub proof fn law_q_normalize_ray(a: Quaternion<Sc>, s: Sc)
    requires q_magnitude2(a)@ == 1real, s@ > 0real
    ensures q_normalize(q_scale(a, s)) == a,
{
    let w = q_scale(a, s);
    lemma_scaled_norm(a.s@, a.v.x@, a.v.y@, a.v.z@, s@);
    assert(q_magnitude2(w)@ == s@ * s@);
    lemma_sqrt_of_square(s@);
    assert(q_magnitude(w)@ == s@);
    let inv = s_div(s_one(), q_magnitude(w));
    assert(inv@ == 1real / s@);
    lemma_scale_back(a.s@, s@); lemma_scale_back(a.v.x@, s@); lemma_scale_back(a.v.y@, s@); lemma_scale_back(a.v.z@, s@);
    assert(q_scale(w, inv) == a);
}
pub proof fn lemma_neg_unit(b: Quaternion<Sc>) ensures q_magnitude2(q_neg(b)) == q_magnitude2(b) {
    let (p, x, y, z) = (b.s@, b.v.x@, b.v.y@, b.v.z@);
    assert((0real - p) * (0real - p) == p * p) by(nonlinear_arith);
    assert((0real - x) * (0real - x) == x * x) by(nonlinear_arith);
    assert((0real - y) * (0real - y) == y * y) by(nonlinear_arith);
    assert((0real - z) * (0real - z) == z * z) by(nonlinear_arith);
}
pub open spec fn q_mix(a: Quaternion<Sc>, b: Quaternion<Sc>, wa: Sc, wb: Sc) -> Quaternion<Sc> { q_add(q_scale(a, wa), q_scale(b, wb)) }
// nlerp: unit, a positive multiple of the weighted sum of a and b' (hence in their plane, on the arc between them for t in [0,1]),
// a at t = 0 and b' at t = 1
pub proof fn law_nlerp(a: Quaternion<Sc>, b: Quaternion<Sc>, t: Sc)
    requires q_magnitude2(a)@ == 1real, q_magnitude2(b)@ == 1real,
        q_magnitude2(q_mix(a, q_shorter(a, b), s_sub(s_one(), t), t))@ != 0real,
    ensures q_magnitude2(q_nlerp(a, b, t)) == s_one(),
        q_scale(q_nlerp(a, b, t), q_magnitude(q_mix(a, q_shorter(a, b), s_sub(s_one(), t), t))) == q_mix(a, q_shorter(a, b), s_sub(s_one(), t), t),
        q_magnitude(q_mix(a, q_shorter(a, b), s_sub(s_one(), t), t))@ > 0real,
        q_dot(a, q_shorter(a, b))@ >= 0real,
{
    law_q_normalize_unit(q_mix(a, q_shorter(a, b), s_sub(s_one(), t), t));
    law_q_weights(a, b, t);
}
pub proof fn law_nlerp_ends(a: Quaternion<Sc>, b: Quaternion<Sc>)
    requires q_magnitude2(a)@ == 1real, q_magnitude2(b)@ == 1real,
    ensures q_nlerp(a, b, s_zero()) == a, q_nlerp(a, b, s_one()) == q_shorter(a, b),
{
    let bb = q_shorter(a, b);
    law_q_weights(a, bb, s_zero());
    lemma_neg_unit(b);
    assert(q_magnitude2(bb)@ == 1real);
    law_q_normalize_ray(a, s_one());
    law_q_normalize_ray(bb, s_one());
    assert(q_scale(a, s_one()) == a);
    assert(q_scale(bb, s_one()) == bb);
}
// ---- slerp (general branch |a.b| <= 0.9995): unit, a positive multiple of a sin((1-t)th) + b' sin(t th), and
// a . slerp(a, b, t) = cos(t th) where cos th = |a.b|: the arc from a grows linearly in t (constant angular speed)
pub open spec fn slerp_absdot(a: Quaternion<Sc>, b: Quaternion<Sc>) -> real { if q_dot(a, b)@ < 0real { 0real - q_dot(a, b)@ } else { q_dot(a, b)@ } }
pub open spec fn slerp_theta(a: Quaternion<Sc>, b: Quaternion<Sc>) -> real { r_acos(r_max(r_min(slerp_absdot(a, b), 1real), 0real - 1real)) }
pub open spec fn slerp_mix(a: Quaternion<Sc>, b: Quaternion<Sc>, t: Sc) -> Quaternion<Sc> {
    q_mix(a, q_shorter(a, b), sc(r_sin(slerp_theta(a, b) * (1real - t@))), sc(r_sin(slerp_theta(a, b) * t@)))
}
pub proof fn lemma_split_angle(th: real, t: real) ensures th * (1real - t) + th * t == th { assert(th * (1real - t) + th * t == th) by(nonlinear_arith); }
pub proof fn lemma_sin_pos(th: real, d: real)
    requires 0real <= th <= r_pi(), r_cos(th) == d, 0real <= d <= 9995real / 10000real
    ensures r_sin(th) > 0real
{
    ax_pythagoras(th);
    ax_sin_nonneg(th);
    let s = r_sin(th);
    assert(d * d <= (9995real / 10000real) * (9995real / 10000real)) by(nonlinear_arith) requires 0real <= d <= 9995real / 10000real;
    assert(s * s > 0real);
    assert(s != 0real) by(nonlinear_arith) requires s * s > 0real;
}
pub proof fn law_slerp(a: Quaternion<Sc>, b: Quaternion<Sc>, t: Sc)
    requires q_magnitude2(a)@ == 1real, q_magnitude2(b)@ == 1real, slerp_absdot(a, b) <= 9995real / 10000real
    ensures q_slerp(a, b, t) == q_normalize(slerp_mix(a, b, t)),
        q_magnitude2(slerp_mix(a, b, t))@ == r_sin(slerp_theta(a, b)) * r_sin(slerp_theta(a, b)),
        r_sin(slerp_theta(a, b)) > 0real,
        r_cos(slerp_theta(a, b)) == slerp_absdot(a, b),
        q_magnitude2(q_slerp(a, b, t)) == s_one(),
        q_scale(q_slerp(a, b, t), sc(r_sin(slerp_theta(a, b)))) == slerp_mix(a, b, t),
        q_dot(a, q_slerp(a, b, t))@ == r_cos(slerp_theta(a, b) * t@),
{
    let bb = q_shorter(a, b);
    let d = slerp_absdot(a, b);
    let th = slerp_theta(a, b);
    let (x, y) = (th * (1real - t@), th * t@);
    let (s1, c1, s2, c2) = (sc(r_sin(x)), sc(r_cos(x)), sc(r_sin(y)), sc(r_cos(y)));
    let w = slerp_mix(a, b, t);
    law_q_weights(a, b, t);
    lemma_neg_unit(b);
    assert(q_dot(a, bb)@ == d);
    assert(0real <= d);
    ax_acos(d);
    assert(r_cos(th) == d);
    lemma_sin_pos(th, d);
    ax_pythagoras(x); ax_pythagoras(y);
    lemma_split_angle(th, t@);
    ax_sin_add(x, y); ax_cos_add(x, y);
    assert(r_cos(x + y) == d);
    law_slerp_speed(a, bb, s1, c1, s2, c2);
    let sn = r_sin(th);
    assert(s1@ * c2@ + c1@ * s2@ == sn);
    assert(q_magnitude2(w)@ == sn * sn);
    assert(sn * sn != 0real) by(nonlinear_arith) requires sn > 0real;
    law_q_normalize_unit(w);
    lemma_sqrt_of_square(sn);
    assert(q_magnitude(w)@ == sn);
    assert(q_magnitude(w) == sc(sn));
    // a . normalize(w) = (a . w) / |w| = sn cos(y) / sn
    let k = s_div(s_one(), q_magnitude(w));
    poly::p_dot_scale(a.s@, a.v.x@, a.v.y@, a.v.z@, w.s@, w.v.x@, w.v.y@, w.v.z@, k@);
    assert(q_dot(a, q_scale(w, k))@ == q_dot(a, w)@ * k@);
    assert(q_dot(a, w)@ == sn * c2@);
    lemma_scale_back(c2@, sn);
    assert((sn * c2@) * (1real / sn) == c2@) by(nonlinear_arith) requires (c2@ * sn) * (1real / sn) == c2@;
}
pub proof fn lemma_mix_zero(a: Quaternion<Sc>, y: Quaternion<Sc>, k: Sc)
    requires k@ == 0real
    ensures q_add(q_scale(a, k), y) == y, q_add(y, q_scale(a, k)) == y,
{
    lemma_mul_zero(a.s@, k@); lemma_mul_zero(a.v.x@, k@); lemma_mul_zero(a.v.y@, k@); lemma_mul_zero(a.v.z@, k@);
}
pub proof fn law_slerp_ends(a: Quaternion<Sc>, b: Quaternion<Sc>)
    requires q_magnitude2(a)@ == 1real, q_magnitude2(b)@ == 1real, slerp_absdot(a, b) <= 9995real / 10000real
    ensures q_slerp(a, b, s_zero()) == a, q_slerp(a, b, s_one()) == q_shorter(a, b),
{
    let bb = q_shorter(a, b);
    let th = slerp_theta(a, b);
    law_slerp(a, b, s_zero());
    lemma_neg_unit(b);
    ax_trig_values();
    let sn = sc(r_sin(th));
    let (z, o) = (s_zero()@, s_one()@);
    assert(th * (1real - z) == th) by(nonlinear_arith) requires z == 0real;
    assert(th * z == 0real) by(nonlinear_arith) requires z == 0real;
    assert(th * (1real - o) == 0real) by(nonlinear_arith) requires o == 1real;
    assert(th * o == th) by(nonlinear_arith) requires o == 1real;
    lemma_mix_zero(bb, q_scale(a, sn), sc(r_sin(th * z)));
    lemma_mix_zero(a, q_scale(bb, sn), sc(r_sin(th * (1real - o))));
    assert(slerp_mix(a, b, s_zero()) == q_scale(a, sn));
    assert(slerp_mix(a, b, s_one()) == q_scale(bb, sn));
    law_q_normalize_ray(a, sn);
    law_q_normalize_ray(bb, sn);
    law_slerp(a, b, s_one());
}
