// ---- composed law of C15 (general branch): for unit a, b that are neither parallel nor antiparallel in the sense of the
// ulps tests, q = between_vectors(a, b) is a unit quaternion with q(a) = b
pub proof fn lemma_sq_nonneg15(x: real) ensures x * x >= 0real { assert(x * x >= 0real) by(nonlinear_arith); }
pub proof fn lemma_lerp_to(ax: real, bx: real, e: real, f: real) requires f * e == 1real ensures ax + ((bx - ax) * e) * f == bx {
    assert(ax + ((bx - ax) * e) * f == bx) by(nonlinear_arith) requires f * e == 1real;
}
pub proof fn law_between_general(a: Vector3<Sc>, b: Vector3<Sc>)
    requires v3_dot(a, a)@ == 1real, v3_dot(b, b)@ == 1real, v3_dot(a, b)@ != 0real - 1real,
        !s_ulps_eq_default(v3_dot(a, b), s_one()),
        !s_ulps_eq_default(s_div(v3_dot(a, b), sc(r_sqrt(s_mul(v3_dot(a, a), v3_dot(b, b))@))), s_neg(s_one())),
    ensures q_rotv(q_between(a, b), a) == b,
        q_magnitude2(q_between(a, b)) == s_one(),
{
    let d = v3_dot(a, b);
    let w = v3_cross(a, b);
    assert(s_mul(v3_dot(a, a), v3_dot(b, b))@ == 1real);
    ax_sqrt(1real);
    let kr = r_sqrt(1real);
    assert(kr == 1real) by(nonlinear_arith) requires kr * kr == 1real, kr >= 0real;
    let k = sc(r_sqrt(s_mul(v3_dot(a, a), v3_dot(b, b))@));
    assert(k@ == 1real);
    let qq = q_from_sv(s_add(k, d), w);
    assert(q_between(a, b) == q_normalize(qq));
    law_between_core(a, b);
    // |qq|^2 = (1 + d)^2 + (1 - d^2)
    let n2 = q_magnitude2(qq)@;
    assert(v3_dot(w, w)@ == 1real - d@ * d@);
    assert(n2 == (1real + d@) * (1real + d@) + (1real - d@ * d@));
    lemma_sq_nonneg15(w.x@); lemma_sq_nonneg15(w.y@); lemma_sq_nonneg15(w.z@);
    assert(1real - d@ * d@ >= 0real);
    assert(d@ >= 0real - 1real) by(nonlinear_arith) requires 1real - d@ * d@ >= 0real;
    assert(1real + d@ > 0real);
    assert(n2 == 2real * (1real + d@)) by(nonlinear_arith) requires n2 == (1real + d@) * (1real + d@) + (1real - d@ * d@);
    assert(n2 != 0real);
    law_q_normalize_unit15(qq);
    let m = q_magnitude(qq);
    let kk = s_div(s_one(), m);
    lemma_div_mul(1real, m@);
    assert(m@ * kk@ == 1real);
    assert(m@ * m@ == n2);
    law_between_scalar(d, m, kk);
    law_between_norm(a, w, s_add(k, d), kk);
    let e = s_add(s_one(), d);
    let f = s_mul(s_mul(s_lit(2real), kk), kk);
    assert(f@ * e@ == 1real);
    assert(s_add(k, d) == e);
    lemma_lerp_to(a.x@, b.x@, e@, f@); lemma_lerp_to(a.y@, b.y@, e@, f@); lemma_lerp_to(a.z@, b.z@, e@, f@);
    assert(q_scale(qq, kk) == q_normalize(qq));
}
pub proof fn law_q_normalize_unit15(w: Quaternion<Sc>)
    requires q_magnitude2(w)@ != 0real
    ensures q_magnitude2(q_normalize(w)) == s_one(), q_magnitude(w)@ * q_magnitude(w)@ == q_magnitude2(w)@, q_magnitude(w)@ != 0real,
{
    let d = q_magnitude2(w)@;
    lemma_sq_nonneg15(w.s@); lemma_sq_nonneg15(w.v.x@); lemma_sq_nonneg15(w.v.y@); lemma_sq_nonneg15(w.v.z@);
    assert(d == (w.s@ * w.s@) + ((w.v.x@ * w.v.x@) + ((w.v.y@ * w.v.y@) + (w.v.z@ * w.v.z@))));
    ax_sqrt(d);
    let m = q_magnitude(w);
    assert(m@ * m@ == d);
    assert(m@ != 0real) by(nonlinear_arith) requires m@ * m@ == d, d != 0real;
    law_q_normalize(w, m);
}
// ---- C15, antiparallel branch: for a unit a and b = -a, between_vectors(a, b) is a half turn about an axis orthogonal
// to a: a unit quaternion with zero scalar part that sends a to -a (the chosen orthogonal vector must be non-zero)
pub proof fn lemma_scaled_norm3_15(x: real, y: real, z: real, k: real, n: real)
    requires (x * x) + ((y * y) + (z * z)) == n, n * (k * k) == 1real
    ensures ((x * k) * (x * k)) + (((y * k) * (y * k)) + ((z * k) * (z * k))) == 1real
{
    poly::p_scaled_norm3_15(x, y, z, k);
}
pub proof fn lemma_scaled_dot3_15(x: real, y: real, z: real, u: real, v: real, w: real, k: real)
    ensures ((x * k) * u) + (((y * k) * v) + ((z * k) * w)) == ((x * u) + ((y * v) + (z * w))) * k
{
    poly::p_scaled_dot3_15(x, y, z, u, v, w, k);
}
pub proof fn law_v3_normalize_unit15(w: Vector3<Sc>)
    requires v3_dot(w, w)@ != 0real
    ensures v3_dot(v3_normalize(w), v3_normalize(w)) == s_one(),
        v3_normalize(w) == v3_scale(w, s_div(s_one(), v3_magnitude(w))),
{
    let d = v3_dot(w, w)@;
    lemma_sq_nonneg15(w.x@); lemma_sq_nonneg15(w.y@); lemma_sq_nonneg15(w.z@);
    ax_sqrt(d);
    let m = v3_magnitude(w)@;
    assert(m * m == d);
    assert(m != 0real) by(nonlinear_arith) requires m * m == d, d != 0real;
    let k = 1real / m;
    lemma_div_mul(1real, m);
    assert(d * (k * k) == 1real) by(nonlinear_arith) requires m * m == d, m * k == 1real;
    lemma_scaled_norm3_15(w.x@, w.y@, w.z@, k, d);
}
pub proof fn lemma_cross_orthogonal(a: Vector3<Sc>, e: Vector3<Sc>) ensures v3_dot(v3_cross(a, e), a)@ == 0real {
    poly::p_cross_orth_15(a.x@, a.y@, a.z@, e.x@, e.y@, e.z@);
}
pub proof fn law_between_opposite(a: Vector3<Sc>)
    requires v3_dot(a, a)@ == 1real,
        !s_ulps_eq_default(v3_dot(a, v3_neg(a)), s_one()),
        v3_dot(between_orthogonal(a), between_orthogonal(a))@ != 0real,
    ensures q_rotv(q_between(a, v3_neg(a)), a) == v3_neg(a),
        q_magnitude2(q_between(a, v3_neg(a))) == s_one(),
        q_between(a, v3_neg(a)).s == s_zero(),
        v3_dot(q_between(a, v3_neg(a)).v, a)@ == 0real,
{
    let b = v3_neg(a);
    assert((0real - a.x@) * (0real - a.x@) == a.x@ * a.x@) by(nonlinear_arith);
    assert((0real - a.y@) * (0real - a.y@) == a.y@ * a.y@) by(nonlinear_arith);
    assert((0real - a.z@) * (0real - a.z@) == a.z@ * a.z@) by(nonlinear_arith);
    assert(v3_dot(b, b)@ == 1real);
    assert(a.x@ * (0real - a.x@) == 0real - a.x@ * a.x@) by(nonlinear_arith);
    assert(a.y@ * (0real - a.y@) == 0real - a.y@ * a.y@) by(nonlinear_arith);
    assert(a.z@ * (0real - a.z@) == 0real - a.z@ * a.z@) by(nonlinear_arith);
    let d = v3_dot(a, b);
    assert(d@ == 0real - 1real);
    ax_sqrt(1real);
    let kr = r_sqrt(1real);
    assert(kr == 1real) by(nonlinear_arith) requires kr * kr == 1real, kr >= 0real;
    let k = sc(r_sqrt(s_mul(v3_dot(a, a), v3_dot(b, b))@));
    assert(k@ == 1real);
    assert(s_div(d, k) == s_neg(s_one()));
    ax_approx_refl(s_neg(s_one()));
    let o = between_orthogonal(a);
    let n = v3_normalize(o);
    assert(q_between(a, b) == q_from_sv(s_zero(), n));
    law_v3_normalize_unit15(o);
    let kk = s_div(s_one(), v3_magnitude(o));
    // o is a cross product with a, hence orthogonal to a; scaling keeps that
    lemma_cross_orthogonal(a, v3_new(s_one(), s_zero(), s_zero()));
    lemma_cross_orthogonal(a, v3_new(s_zero(), s_one(), s_zero()));
    assert(v3_dot(o, a)@ == 0real);
    lemma_scaled_dot3_15(o.x@, o.y@, o.z@, a.x@, a.y@, a.z@, kk@);
    assert(v3_dot(n, a)@ == 0real);
    law_half_turn(a, n);
    assert(q_magnitude2(q_from_sv(s_zero(), n))@ == 0real * 0real + v3_dot(n, n)@);
}
