// ---- C07 exact rebuild (regular branch): for a unit quaternion with |sin y| = |2(qx qz + qy qw)| <= 0.998 the Euler angles
// extracted by From<Quaternion> rebuild exactly the rotation matrix of q
pub proof fn lemma_sq_nonneg07(x: real) ensures x * x >= 0real { assert(x * x >= 0real) by(nonlinear_arith); }
pub proof fn lemma_sqrt_sq07(s: real) requires s >= 0real ensures r_sqrt(s * s) == s {
    lemma_sq_nonneg07(s);
    ax_sqrt(s * s);
    let r = r_sqrt(s * s);
    assert(r == s) by(nonlinear_arith) requires r * r == s * s, r >= 0real, s >= 0real;
}
pub proof fn lemma_quot(d: real, c: real, x: real) requires d * c == x, d != 0real ensures c == x / d {
    lemma_div_mul(x, d);
    assert(c == x / d) by(nonlinear_arith) requires d * c == x, d * (x / d) == x, d != 0real;
}
pub proof fn law_euler_exact_rebuild(q: Quaternion<Sc>)
    requires q_magnitude2(q)@ == 1real,
        0real - 499real / 1000real <= s_add(s_mul(q.v.x, q.v.z), s_mul(q.v.y, q.s))@ <= 499real / 1000real,
    ensures ({
        let e = euler_from_q_regular(q);
        m3_euler(rad_sin(e.x), rad_cos(e.x), rad_sin(e.y), rad_cos(e.y), rad_sin(e.z), rad_cos(e.z)) == m3_from_q(q)
    }),
{
    let e = euler_from_q_regular(q);
    let two = s_lit(2real);
    let one = s_lit(1real);
    let (qw, qx, qy, qz) = (q.s, q.v.x, q.v.y, q.v.z);
    let t = s_mul(two, s_add(s_mul(qx, qz), s_mul(qy, qw)));
    let yx = s_mul(two, s_add(s_mul(s_neg(qy), qz), s_mul(qx, qw)));
    let xx = s_sub(one, s_mul(two, s_add(s_mul(qx, qx), s_mul(qy, qy))));
    let yz = s_mul(two, s_add(s_mul(s_neg(qx), qy), s_mul(qz, qw)));
    let xz = s_sub(one, s_mul(two, s_add(s_mul(qy, qy), s_mul(qz, qz))));
    assert(0real - 998real / 1000real <= t@ <= 998real / 1000real);
    // y = asin(t): sin y = t, cos y = sqrt(1 - t^2) > 0
    ax_asin(t@);
    let ey = r_asin(t@);
    ax_cos_nonneg(ey);
    ax_pythagoras(ey);
    let cy = r_cos(ey);
    assert(t@ * t@ <= (998real / 1000real) * (998real / 1000real)) by(nonlinear_arith) requires 0real - 998real / 1000real <= t@ <= 998real / 1000real;
    assert(cy * cy == 1real - t@ * t@);
    assert(cy * cy > 0real);
    assert(cy != 0real) by(nonlinear_arith) requires cy * cy > 0real;
    assert(cy > 0real);
    law_euler_rebuild(q, sc(cy));
    // x = atan2(yx, xx), z = atan2(yz, xz): the radius is cy in both cases
    assert(yx@ * yx@ + xx@ * xx@ == cy * cy);
    assert(yz@ * yz@ + xz@ * xz@ == cy * cy);
    lemma_sqrt_sq07(cy);
    assert(xx@ != 0real || yx@ != 0real) by(nonlinear_arith) requires yx@ * yx@ + xx@ * xx@ > 0real;
    assert(xz@ != 0real || yz@ != 0real) by(nonlinear_arith) requires yz@ * yz@ + xz@ * xz@ > 0real;
    ax_atan2(yx@, xx@);
    ax_atan2(yz@, xz@);
    assert(r_sqrt(xx@ * xx@ + yx@ * yx@) == cy);
    assert(r_sqrt(xz@ * xz@ + yz@ * yz@) == cy);
    let (ex, ez) = (r_atan2(yx@, xx@), r_atan2(yz@, xz@));
    lemma_quot(cy, r_cos(ex), xx@); lemma_quot(cy, r_sin(ex), yx@);
    lemma_quot(cy, r_cos(ez), xz@); lemma_quot(cy, r_sin(ez), yz@);
    assert(rad_sin(e.x) == s_div(yx, sc(cy)));
    assert(rad_cos(e.x) == s_div(xx, sc(cy)));
    assert(rad_sin(e.z) == s_div(yz, sc(cy)));
    assert(rad_cos(e.z) == s_div(xz, sc(cy)));
    assert(rad_sin(e.y) == t);
    assert(rad_cos(e.y) == sc(cy));
    law_m3_euler_shape(s_div(yx, sc(cy)), s_div(xx, sc(cy)), t, sc(cy), s_div(yz, sc(cy)), s_div(xz, sc(cy)));
}
// ---- C07: the quaternion built from Euler angles (half angles) has exactly the rotation matrix built from the same angles
pub proof fn lemma_double_angle(a: real) ensures ({ let h = a * (1real / 2real);
        &&& r_sin(a) == (2real * r_sin(h)) * r_cos(h)
        &&& r_cos(a) == r_cos(h) * r_cos(h) - r_sin(h) * r_sin(h)
        &&& r_sin(h) * r_sin(h) + r_cos(h) * r_cos(h) == 1real }),
{
    let h = a * (1real / 2real);
    assert(h + h == a);
    ax_sin_add(h, h); ax_cos_add(h, h); ax_pythagoras(h);
    assert(r_sin(h) * r_cos(h) + r_cos(h) * r_sin(h) == (2real * r_sin(h)) * r_cos(h)) by(nonlinear_arith);
}
pub proof fn law_euler_q_matches_m(ex: Rad<Sc>, ey: Rad<Sc>, ez: Rad<Sc>)
    ensures ({ let h = s_lit(1real / 2real);
        m3_from_q(q_euler(rad_sin(rad_scale(ex, h)), rad_cos(rad_scale(ex, h)), rad_sin(rad_scale(ey, h)), rad_cos(rad_scale(ey, h)), rad_sin(rad_scale(ez, h)), rad_cos(rad_scale(ez, h))))
            == m3_euler(rad_sin(ex), rad_cos(ex), rad_sin(ey), rad_cos(ey), rad_sin(ez), rad_cos(ez)) }),
{
    let h = s_lit(1real / 2real);
    let (shx, chx) = (rad_sin(rad_scale(ex, h)), rad_cos(rad_scale(ex, h)));
    let (shy, chy) = (rad_sin(rad_scale(ey, h)), rad_cos(rad_scale(ey, h)));
    let (shz, chz) = (rad_sin(rad_scale(ez, h)), rad_cos(rad_scale(ez, h)));
    lemma_double_angle(ex.0@); lemma_double_angle(ey.0@); lemma_double_angle(ez.0@);
    let two = s_lit(2real);
    assert(s_mul(s_mul(two, shx), chx) == rad_sin(ex));
    assert(s_sub(s_mul(chx, chx), s_mul(shx, shx)) == rad_cos(ex));
    assert(s_mul(s_mul(two, shy), chy) == rad_sin(ey));
    assert(s_sub(s_mul(chy, chy), s_mul(shy, shy)) == rad_cos(ey));
    assert(s_mul(s_mul(two, shz), chz) == rad_sin(ez));
    assert(s_sub(s_mul(chz, chz), s_mul(shz, shz)) == rad_cos(ez));
    law_q_euler_matrix(shx, chx, shy, chy, shz, chz);
    law_q_euler_shape(shx, chx, shy, chy, shz, chz);
    law_m3_euler_shape(rad_sin(ex), rad_cos(ex), rad_sin(ey), rad_cos(ey), rad_sin(ez), rad_cos(ez));
}
