"""Angle family (Rad, Deg): spec library, contracts, laws (C13; used by C06, C07, C10, C11, C14, C15)."""
import re
from common import *
from sym import R, B, Struct, SpecLib, Law, CertLaw, s_eq, s_lt, lift


class Rad(Struct):
    TYPE = 'Rad<Sc>'
    FIELDS = [('0', R)]


class Deg(Struct):
    TYPE = 'Deg<Sc>'
    FIELDS = [('0', R)]


def val(a):
    return getattr(a, '0')


PI = R('sc(r_pi())', 'r_pi()', ('fn', 'r_pi', []))


def fn1(name, x):
    x = lift(x)
    return R('sc(%s(%s@))' % (name, x.spec), '%s(%s)' % (name, x.flat), ('fn', name, [x.ast]))


def fn2(name, x, y):
    x, y = lift(x), lift(y)
    return R('sc(%s(%s@, %s@))' % (name, x.spec, y.spec), '%s(%s, %s)' % (name, x.flat, y.flat), ('fn', name, [x.ast, y.ast]))


UNITS = {'rad': Rad, 'deg': Deg}


def build(lib: SpecLib, F):
    F['rad_full_turn'] = lib.fn('rad_full_turn', [], Rad)(lambda: Rad(PI * R.lit(2)))
    F['deg_full_turn'] = lib.fn('deg_full_turn', [], Deg)(lambda: Deg(R.lit(360)))
    F['deg_to_rad'] = lib.fn('deg_to_rad', [Deg], Rad, argnames=['d'])(lambda d: Rad(val(d) * (PI / R.lit(180))))
    F['rad_to_deg'] = lib.fn('rad_to_deg', [Rad], Deg, argnames=['r'])(lambda r: Deg(val(r) * (R.lit(180) / PI)))
    F['rad_to_rad'] = lambda r: r
    F['rad_from_rad'] = lambda r: r
    F['deg_from_rad'] = F['rad_to_deg']
    for p, T in UNITS.items():
        def mk(p=p, T=T):
            F[p + '_zero'] = lib.fn(p + '_zero', [], T)(lambda: T(R.lit(0)))
            F[p + '_add'] = lib.fn(p + '_add', [T, T], T, argnames=['a', 'b'])(lambda a, b: T(val(a) + val(b)))
            F[p + '_sub'] = lib.fn(p + '_sub', [T, T], T, argnames=['a', 'b'])(lambda a, b: T(val(a) - val(b)))
            F[p + '_rem'] = lib.fn(p + '_rem', [T, T], T, argnames=['a', 'b'])(lambda a, b: T(val(a) % val(b)))
            F[p + '_ratio'] = lib.fn(p + '_ratio', [T, T], R, argnames=['a', 'b'])(lambda a, b: val(a) / val(b))
            F[p + '_neg'] = lib.fn(p + '_neg', [T], T, argnames=['a'])(lambda a: T(-val(a)))
            F[p + '_scale'] = lib.fn(p + '_scale', [T, R], T, argnames=['a', 's'])(lambda a, s: T(val(a) * s))
            F[p + '_divs'] = lib.fn(p + '_divs', [T, R], T, argnames=['a', 's'])(lambda a, s: T(val(a) / s))
            F[p + '_eq'] = lib.fn(p + '_eq', [T, T], B, argnames=['a', 'b'])(lambda a, b: s_eq(val(a), val(b)))
            for k in (2, 3, 4, 6):
                F['%s_turn_div_%d' % (p, k)] = lib.fn('%s_turn_div_%d' % (p, k), [], T)(
                    lambda k=k: F[p + '_divs'](F[p + '_full_turn'](), R.lit(k)))
            to_rad = F[p + '_to_rad']
            for fnm in ('sin', 'cos', 'tan'):
                F['%s_%s' % (p, fnm)] = lib.fn('%s_%s' % (p, fnm), [T], R, argnames=['a'])(lambda a, fnm=fnm: fn1('r_' + fnm, val(to_rad(a))))
            F[p + '_csc'] = lib.fn(p + '_csc', [T], R, argnames=['a'])(lambda a: R.lit(1) / F[p + '_sin'](a))
            F[p + '_sec'] = lib.fn(p + '_sec', [T], R, argnames=['a'])(lambda a: R.lit(1) / F[p + '_cos'](a))
            F[p + '_cot'] = lib.fn(p + '_cot', [T], R, argnames=['a'])(lambda a: R.lit(1) / F[p + '_tan'](a))
            from_rad = F[p + '_from_rad']
            for fnm in ('asin', 'acos', 'atan'):
                F['%s_%s' % (p, fnm)] = lib.fn('%s_%s' % (p, fnm), [R], T, argnames=['x'])(lambda x, fnm=fnm: from_rad(Rad(fn1('r_' + fnm, x))))
            F[p + '_atan2'] = lib.fn(p + '_atan2', [R, R], T, argnames=['y', 'x'])(lambda y, x: from_rad(Rad(fn2('r_atan2', y, x))))
        mk()
    return F


def text_specs():
    out = []
    for p, T in (('rad', 'Rad<Sc>'), ('deg', 'Deg<Sc>')):
        out.append('''
pub open spec fn {p}_normalize(a: {T}) -> {T} {{ let rem = {p}_rem(a, {p}_full_turn()); if s_lt(rem.0, s_zero()) {{ {p}_add(rem, {p}_full_turn()) }} else {{ rem }} }}
pub open spec fn {p}_normalize_signed(a: {T}) -> {T} {{ let rem = {p}_normalize(a); if s_lt({p}_turn_div_2().0, rem.0) {{ {p}_sub(rem, {p}_full_turn()) }} else {{ rem }} }}
pub open spec fn {p}_opposite(a: {T}) -> {T} {{ {p}_normalize({p}_add(a, {p}_turn_div_2())) }}
// the bisector: start at a, go half of the signed (shortest) way to b
pub open spec fn {p}_bisect(a: {T}, b: {T}) -> {T} {{ {p}_normalize({p}_add({p}_scale({p}_normalize_signed({p}_sub(b, a)), s_lit(1real / 2real)), a)) }}
'''.format(p=p, T=T))
    out.append('''
pub open spec fn r_normalize(a: real, t: real) -> real { let rem = r_rem(a, t); if rem < 0real { rem + t } else { rem } }
pub open spec fn r_normalize_signed(a: real, t: real) -> real { let n = r_normalize(a, t); if t / 2real < n { n - t } else { n } }
pub open spec fn r_whole_turns(x: real, y: real, t: real) -> bool { exists|k: int| #[trigger] r_turns(x, y, t, k) }
pub open spec fn r_turns(x: real, y: real, t: real, k: int) -> bool { x == y + (k as real) * t }
''')
    return ''.join(out)


def trusted_prelude():
    """std's reflexive `impl<T> From<T> for T` is the identity (used by `Rad::from(self)` / `.into()` on a Rad)"""
    return ('verus! {\n// ---- trusted: core::convert reflexive From is the identity\n'
            'pub assume_specification<T>[ <T as core::convert::From<T>>::from ](v: T) -> (r: T) ensures r == v;\n'
            '} // verus!\n')


ANG = r"(&'[a-z]+ )?(Rad|Deg)<S>"


def contracts(unit, im, f):
    if im is None:
        return None
    st, self_ref = base_type(im.selfty)
    tn = trait_name(im.trait)
    ta = trait_args(im.trait)
    name = f.name
    if tn == 'From' and st in ('Rad', 'Deg') and re.fullmatch(r'(Rad|Deg)<S>', ta.strip()):
        fnm = 'deg_to_rad' if st == 'Rad' else 'rad_to_deg'
        return Contract(ensures=['ret == %s($0)' % fnm], spec='%s(v)' % fnm)
    if st not in ('Rad', 'Deg'):
        return None
    p = st.lower()
    selfx = deref('self', self_ref)
    if tn == 'Clone' and name == 'clone':
        return Contract(ensures=['ret == *self'])
    if tn == 'PartialEq' and name == 'eq':
        return Contract(ensures=['ret == %s_eq(*self, *$1)' % p], spec='%s_eq(*self, *rhs)' % p)
    if tn == 'PartialOrd' and name == 'partial_cmp':
        return Contract(ensures=['ret == s_partial_cmp(self.0, $1.0)'], spec='s_partial_cmp(self.0, rhs.0)')
    if tn == 'Zero' and name == 'zero':
        return Contract(ensures=['ret == %s_zero()' % p])
    if tn == 'Neg':
        return Contract(ensures=['ret == %s_neg(%s)' % (p, selfx)], spec='%s_neg(%s)' % (p, selfx))
    if tn in ('Add', 'Sub', 'Rem') and re.search(r'Rad|Deg', ta):
        _, rref = base_type(ta)
        sp = '%s_%s' % (p, tn.lower())
        return Contract(ensures=['ret == %s(%s, %s)' % (sp, selfx, deref('$1', rref))], spec='%s(%s, %s)' % (sp, selfx, deref('rhs', rref)))
    if tn == 'Div' and re.search(r'Rad|Deg', ta):
        _, rref = base_type(ta)
        return Contract(ensures=['ret == %s_ratio(%s, %s)' % (p, selfx, deref('$1', rref))], spec='%s_ratio(%s, %s)' % (p, selfx, deref('rhs', rref)))
    if tn in ('AddAssign', 'SubAssign', 'RemAssign') and re.search(r'Rad|Deg', ta):
        sp = '%s_%s' % (p, tn[:3].lower())
        return Contract(ensures=['*final(self) == %s(*old(self), $1)' % sp], spec='%s(*self, rhs)' % sp)
    if tn in ('Mul', 'Div') and ta.strip() == 'S':
        sp = '%s_%s' % (p, {'Mul': 'scale', 'Div': 'divs'}[tn])
        return Contract(ensures=['ret == %s(%s, $1)' % (sp, selfx)], spec='%s(%s, rhs)' % (sp, selfx))
    if tn in ('MulAssign', 'DivAssign') and ta.strip() == 'S':
        sp = '%s_%s' % (p, {'Mul': 'scale', 'Div': 'divs'}[tn[:-6]])
        return Contract(ensures=['*final(self) == %s(*old(self), $1)' % sp], spec='%s(*self, rhs)' % sp)
    if tn == 'Angle':
        d = {'full_turn': 'ret == %s_full_turn()' % p,
             'turn_div_2': 'ret == %s_turn_div_2()' % p, 'turn_div_3': 'ret == %s_turn_div_3()' % p,
             'turn_div_4': 'ret == %s_turn_div_4()' % p, 'turn_div_6': 'ret == %s_turn_div_6()' % p,
             'sin': 'ret == %s_sin(self)' % p, 'cos': 'ret == %s_cos(self)' % p, 'tan': 'ret == %s_tan(self)' % p,
             'sin_cos': 'ret.0 == %s_sin(self) && ret.1 == %s_cos(self)' % (p, p),
             'csc': 'ret == %s_csc(self)' % p, 'sec': 'ret == %s_sec(self)' % p, 'cot': 'ret == %s_cot(self)' % p,
             'asin': 'ret == %s_asin($0)' % p, 'acos': 'ret == %s_acos($0)' % p, 'atan': 'ret == %s_atan($0)' % p,
             'atan2': 'ret == %s_atan2($0, $1)' % p,
             'normalize': 'ret == %s_normalize(self)' % p, 'normalize_signed': 'ret == %s_normalize_signed(self)' % p,
             'opposite': 'ret == %s_opposite(self)' % p, 'bisect': 'ret == %s_bisect(self, $1)' % p}
        if name in d:
            return Contract(ensures=[d[name]])
    return None


ANGLE_METHODS = ['full_turn', 'turn_div_2', 'turn_div_3', 'turn_div_4', 'turn_div_6', 'sin', 'cos', 'tan', 'sin_cos',
                 'csc', 'sec', 'cot', 'asin', 'acos', 'atan', 'atan2', 'normalize', 'normalize_signed', 'opposite', 'bisect']


def select_c13(unit, methods=None):
    unit.select(
        Sel('Clone', ANG), Sel('Copy', ANG), Sel('PartialEq', ANG, ['eq']), Sel('PartialOrd', ANG, ['partial_cmp']),
        Sel('From', r'(Rad|Deg)<S>', trait_args=r'(Rad|Deg)<S>'),
        Sel('Zero', ANG, ['zero']), Sel('Neg', ANG),
        Sel('Add', ANG), Sel('Sub', ANG), Sel('Rem', ANG), Sel('Mul', ANG), Sel('Div', ANG),
        Sel('AddAssign', ANG), Sel('SubAssign', ANG), Sel('RemAssign', ANG), Sel('MulAssign', ANG), Sel('DivAssign', ANG),
        Sel('Angle', ANG, methods or ANGLE_METHODS),
    )


def laws(F):
    out = []
    L = CertLaw('angle_conv', [('r', Rad), ('d', Deg)])
    r, d = L.vars
    L.eq(F['deg_to_rad'](F['rad_to_deg'](r)), r)
    L.eq(F['rad_to_deg'](F['deg_to_rad'](d)), d)
    L.eq(F['rad_to_deg'](F['rad_full_turn']()), F['deg_full_turn']())
    out.append(L)
    for p, T in UNITS.items():
        L = CertLaw('%s_turn_div' % p, [])
        for k in (2, 3, 4, 6):
            L.eq(F[p + '_scale'](F['%s_turn_div_%d' % (p, k)](), R.lit(k)), F[p + '_full_turn']())
        out.append(L)
    return out


def handwritten_laws():
    """range / whole-turn / bisector lemmas (pass A, use the fmod axiom)"""
    t = '''
pub proof fn lemma_normalize(a: real, t: real)
    requires t > 0real
    ensures 0real <= r_normalize(a, t) <= t,
        r_normalize(a, t) == a - (r_quot(a, t) as real) * t || r_normalize(a, t) == a - (r_quot(a, t) as real) * t + t,
{
    ax_fmod(a, t);
}
pub proof fn lemma_normalize_signed(a: real, t: real)
    requires t > 0real
    ensures 0real - t / 2real <= r_normalize_signed(a, t) <= t / 2real,
        r_normalize_signed(a, t) == a - (r_quot(a, t) as real) * t || r_normalize_signed(a, t) == a - (r_quot(a, t) as real) * t + t
            || r_normalize_signed(a, t) == a - (r_quot(a, t) as real) * t - t,
{
    lemma_normalize(a, t);
}
// bisector: r = normalize(a + d) with d = normalize_signed(b - a) / 2:
//   |d| <= t/4,  r differs from a + d by a whole number of turns, and b differs from r + d by a whole number of turns
pub open spec fn r_bisect(a: real, b: real, t: real) -> real { r_normalize(r_normalize_signed(b - a, t) * (1real / 2real) + a, t) }
pub proof fn lemma_bisect(a: real, b: real, t: real)
    requires t > 0real
    ensures ({
        let d = r_normalize_signed(b - a, t) * (1real / 2real);
        let r = r_bisect(a, b, t);
        &&& 0real <= r <= t
        &&& 0real - t / 4real <= d <= t / 4real
        &&& (r == a + d - (r_quot(d + a, t) as real) * t || r == a + d - (r_quot(d + a, t) as real) * t + t)
        &&& (b - a - 2real * d == (r_quot(b - a, t) as real) * t || b - a - 2real * d == (r_quot(b - a, t) as real) * t - t || b - a - 2real * d == (r_quot(b - a, t) as real) * t + t)
    }),
{
    lemma_normalize_signed(b - a, t);
    let ns = r_normalize_signed(b - a, t);
    assert(ns * (1real / 2real) == ns / 2real) by(nonlinear_arith);
    lemma_normalize(ns * (1real / 2real) + a, t);
}
'''
    for p, T, turn in (('rad', 'Rad<Sc>', 'r_pi() * 2real'), ('deg', 'Deg<Sc>', '360real')):
        t += '''
pub proof fn law_{p}_normalize(a: {T})
    ensures {p}_normalize(a).0@ == r_normalize(a.0@, {turn}), {p}_normalize_signed(a).0@ == r_normalize_signed(a.0@, {turn}),
        0real <= {p}_normalize(a).0@ <= {turn}, 0real - ({turn}) / 2real <= {p}_normalize_signed(a).0@ <= ({turn}) / 2real,
        {p}_opposite(a).0@ == r_normalize(a.0@ + ({turn}) / 2real, {turn}),
{{
    ax_pi();
    lemma_normalize(a.0@, {turn});
    lemma_normalize_signed(a.0@, {turn});
}}
pub proof fn law_{p}_bisect(a: {T}, b: {T})
    ensures {p}_bisect(a, b).0@ == r_bisect(a.0@, b.0@, {turn}),
{{
    ax_pi();
    law_{p}_normalize({p}_sub(b, a));
}}
'''.format(p=p, T=T, turn=turn)
    return t
