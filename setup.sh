#!/bin/bash
# offline set-up: nothing to download; warm the expansion cache and check the tools are present
set -e
cd "$(dirname "$0")"
command -v verus >/dev/null
command -v cargo >/dev/null
mkdir -p .cache evidence replays
./tools/expand.sh >/dev/null
echo setup ok
