"""./check <Cxx> [--tier quick|thorough] [--replay FILE]

expand /repo -> extract the property's unit(s) -> Verus pass A + pass B (-> Kani group) ->
classify -> evidence/<Cxx>.json -> exit 0 | 1 (+ VIOLATION line) | 2 (UNDECIDED, infrastructure).
"""
import argparse
import concurrent.futures as cf
import json
import os
import re
import subprocess
import sys
import time

ROOT = os.path.dirname(os.path.dirname(os.path.abspath(__file__)))
sys.path.insert(0, os.path.join(ROOT, 'tools'))
sys.path.insert(0, os.path.join(ROOT, 'contracts'))
CACHE = os.path.join(ROOT, '.cache')
VERUS_TIMEOUT = int(os.environ.get('VERIF_VERUS_TIMEOUT', '600'))


def sh(cmd, timeout=None, cwd=None, env=None):
    """run a command in its own process group; on timeout the whole group is killed (a killed verus would otherwise leave
    its z3 children running)"""
    import signal
    t0 = time.time()
    p = subprocess.Popen(cmd, stdout=subprocess.PIPE, stderr=subprocess.PIPE, text=True, cwd=cwd, env=env, start_new_session=True)
    try:
        so, se = p.communicate(timeout=timeout)
        return p.returncode, so, se, time.time() - t0
    except subprocess.TimeoutExpired:
        try:
            os.killpg(p.pid, signal.SIGKILL)
        except OSError:
            pass
        try:
            so, se = p.communicate(timeout=10)
        except Exception:
            so, se = '', ''
        return 124, so or '', se or '', time.time() - t0


class Undecided(Exception):
    pass


def expand(features=''):
    rc, out, err, _ = sh([os.path.join(ROOT, 'tools', 'expand.sh')] + ([features] if features else []), timeout=600)
    if rc != 0:
        raise Undecided('expansion of /repo failed (does the tree compile?):\n' + err[-2000:])
    return out.strip().splitlines()[-1]


def run_verus(path, which, threads=8, extra=(), timeout=None):
    """which: 'A' (root module, default options) | 'B' (module poly, macro_finder)"""
    cmd = ['verus', path, '--output-json', '--time', '--num-threads', str(threads)]
    if which == 'A':
        cmd += ['--verify-root']
    else:
        cmd += ['--verify-only-module', 'poly', '--smt-option', 'smt.macro_finder=true']
    cmd += list(extra)
    cmd += ['--', '--error-format=json']
    rc, out, err, wall = sh(cmd, timeout=timeout or VERUS_TIMEOUT, cwd=os.path.dirname(path))
    res = {'cmd': ' '.join(cmd), 'rc': rc, 'wall_s': round(wall, 2), 'diags': [], 'json': None, 'raw_err': err}
    try:
        res['json'] = json.loads(out)
    except Exception:
        res['json'] = None
    for line in err.splitlines():
        line = line.strip()
        if line.startswith('{'):
            try:
                d = json.loads(line)
            except Exception:
                continue
            if d.get('level') == 'error':
                res['diags'].append(d)
    return res


DEFINITE = ('postcondition not satisfied', 'precondition not satisfied', 'assertion failed',
            'possible arithmetic underflow/overflow', 'possible division by zero', 'index out of bounds',
            'possible index out of bounds', 'failed this postcondition', 'unreachable', 'loop invariant',
            'unable to prove post-condition of closure', 'unable to prove precondition of closure')
RESOURCE = ('rlimit', 'resource limit', 'timed out', 'timeout', 'canceled')


def classify(unit, res, path):
    """-> (failures, infra) ; failures: list of dict(obligation, kind, message, rendered)"""
    fname = os.path.basename(path)
    failures, infra = [], []
    j = res['json']
    if res['rc'] == 124:
        infra.append('verus timed out after %ss: %s' % (VERUS_TIMEOUT, res['cmd']))
        return failures, infra
    if j is None:
        infra.append('verus produced no JSON (rc=%s): %s' % (res['rc'], res['raw_err'][-1500:]))
        return failures, infra
    vr = j.get('verification-results', {})
    if vr.get('encountered-vir-error') or (vr.get('encountered-error') and not res['diags']):
        if not res['diags']:
            infra.append('verus/rustc error: ' + res['raw_err'][-1500:])
    for d in res['diags']:
        msg = d.get('message', '')
        if msg.startswith('aborting due to'):
            continue
        if d.get('code'):      # rustc error with an error code: the generated file does not type-check
            infra.append('generated file does not compile (%s): %s' % (d['code'].get('code'), d.get('rendered', '')[:1500]))
            continue
        spans = [s for s in d.get('spans', []) if s.get('file_name', '').endswith(fname)]
        lines = [s['line_start'] for s in spans if s.get('is_primary')] + [s['line_start'] for s in spans if not s.get('is_primary')]
        # the obligation that owns the failure: the function whose text contains a span.
        # (precondition failures: primary span is the callee's requires, the call site is secondary)
        owner = None
        low = msg.lower()
        cands = []
        for ln in lines:
            for (lo, hi, name, origin, kind) in unit.table:
                if lo <= ln <= hi:
                    cands.append((name, origin, kind, ln))
        if 'precondition' in low:
            # prefer a span that is not a `requires` line: take the last candidate (call site)
            pick = [c for c in cands if c[2] == 'fn']
            owner = pick[-1] if pick else (cands[-1] if cands else None)
        else:
            owner = cands[0] if cands else None
        entry = {'message': msg, 'rendered': d.get('rendered', '')[:3000]}
        if any(k in low for k in RESOURCE):
            infra.append('solver resource limit: ' + d.get('rendered', '')[:800])
            continue
        if owner is None:
            infra.append('verifier error outside any obligation of the unit: ' + d.get('rendered', '')[:1500])
            continue
        entry.update({'obligation': owner[0], 'origin': owner[1], 'kind': owner[2], 'line': owner[3]})
        if owner[2] == 'canary':
            entry['canary'] = True
            failures.append(entry)
        elif owner[2] != 'fn':
            infra.append('a law lemma / spec-library obligation failed (depends on /verif only, not on /repo): ' + d.get('rendered', '')[:1500])
        elif any(k in low for k in DEFINITE):
            failures.append(entry)
        else:
            infra.append('unclassified verifier error: ' + d.get('rendered', '')[:1500])
    return failures, infra


TRUST_RE = re.compile(r'external_body|\badmit\s*\(|\bassume\s*\(|assume_specification|\baxiom\b|external_fn_specification|#\[verifier::external')


def trusted_scan(text, unit):
    """every external_body/admit/assume/... must lie in the prelude part of the file"""
    marker = text.find('// ---- types (verbatim from the expansion)')
    hits_pre = TRUST_RE.findall(text[:marker])
    rest = text[marker:]
    rest = re.sub(r'#\[verifier::external_body\] // ASSUMED-CONTRACT', '', rest)
    bad = [m.group(0) for m in TRUST_RE.finditer(rest)]
    return len(hits_pre), bad


def main():
    ap = argparse.ArgumentParser()
    ap.add_argument('prop')
    ap.add_argument('--tier', default=os.environ.get('VERIF_TIER', 'quick'))
    ap.add_argument('--replay', default=None)
    args = ap.parse_args()
    prop = args.prop
    tier = args.tier if args.tier in ('quick', 'thorough') else 'quick'
    seed = int(os.environ.get('VERIF_SEED', '1') or 1)
    t0 = time.time()
    import props
    if args.replay:
        sys.exit(props.replay(prop, args.replay))
    evid_path = os.path.join(ROOT, 'evidence', '%s.json' % prop)
    os.makedirs(os.path.dirname(evid_path), exist_ok=True)
    try:
        os.remove(evid_path)
    except OSError:
        pass
    try:
        result = props.run(prop, tier, seed)
    except Undecided as e:
        print('UNDECIDED property=%s: %s' % (prop, e))
        sys.exit(2)
    except props.Infra as e:
        print('UNDECIDED property=%s: %s' % (prop, e))
        sys.exit(2)
    result['wall_s'] = round(time.time() - t0, 2)
    code = props.finish(prop, tier, seed, result, evid_path)
    sys.exit(code)

