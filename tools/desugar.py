"""Rule R19: `Option` combinators applied to a closure LITERAL are written out as the `match` that defines them:

    e.map(|x| b)              ->  (match e { Some(x) => Some(b), None => None })
    e.and_then(|x| b)         ->  (match e { Some(x) => b, None => None })
    e.unwrap_or_else(|| b)    ->  (match e { Some(v__) => v__, None => b })
    e.map_or(d, |x| b)        ->  (match e { Some(x) => b, None => d })
    e.ok_or_else(|| b)        ->  (match e { Some(v__) => Ok(v__), None => Err(b) })

(the standard library's definitions, token for token in the closure body).  An exec closure without a contract gives Verus
nothing to reason with; the `match` does.  Closures the contract annotates (rule R10) are left alone, and so is every
combinator whose argument is not a closure literal.  Applied only when the receiver is a postfix chain (path / field /
call / index), which is found by walking back from the `.`.
"""
import re
from rsparse import tokenize, match_delims

COMBINATORS = ('map', 'and_then', 'unwrap_or_else', 'map_or', 'ok_or_else')


def _receiver_start(toks, mt_rev, i):
    """i = index of the '.' before the combinator name; returns the index of the first token of the receiver expression"""
    k = i - 1
    while k >= 0:
        t = toks[k]
        if t.text in (')', ']'):
            k = mt_rev[k] - 1
            # a call / index group is preceded by the callee path or another postfix
            continue
        if t.kind in ('id', 'num') or t.text in ('self', 'Self'):
            # part of a path / field chain?
            if k - 1 >= 0 and toks[k - 1].text in ('.', '::'):
                k -= 2
                continue
            return k
        if t.text == '>' and k >= 2:
            # turbofish `::<..>`: walk back to the matching '<'
            depth, j = 0, k
            while j >= 0:
                if toks[j].text == '>':
                    depth += 1
                elif toks[j].text == '<':
                    depth -= 1
                    if depth == 0:
                        break
                j -= 1
            if j >= 1 and toks[j - 1].text == '::':
                k = j - 2
                continue
            return None
        if t.text == '?':
            k -= 1
            continue
        return k + 1
    return 0


def desugar(body, is_option=None):
    """returns (new body, list of combinators written out); `is_option(receiver_text)` must confirm that the receiver is an
    Option (the crate's own vector types have `map` / `zip` methods too): when it cannot, the call is left alone"""
    done = []
    for _ in range(40):
        toks = tokenize(body)
        mt = match_delims(toks)
        rev = {v: k for k, v in mt.items()}
        hit = None
        for i, t in enumerate(toks):
            if t.text != '.' or i + 2 >= len(toks):
                continue
            name = toks[i + 1].text
            if name not in COMBINATORS or toks[i + 2].text != '(':
                continue
            op = i + 2
            cl = mt[op]
            inner = body[toks[op].end:toks[cl].start]
            args = _split(inner)
            if name in ('map', 'and_then', 'unwrap_or_else', 'ok_or_else'):
                if len(args) != 1:
                    continue
                clos = args[0]
                default = None
            else:
                if len(args) != 2:
                    continue
                default, clos = args
            m = re.match(r'\s*(move\s+)?\|([^|]*)\|\s*(.*)$', clos, re.S)
            m0 = re.match(r'\s*(move\s+)?\|\|\s*(.*)$', clos, re.S)
            if name in ('unwrap_or_else', 'ok_or_else'):
                if not m0:
                    continue
                params, cbody = '', m0.group(2)
            else:
                if not m:
                    continue
                params, cbody = m.group(2).strip(), m.group(3)
                if ',' in params or not re.fullmatch(r'(mut\s+)?[A-Za-z_][A-Za-z0-9_]*(\s*:\s*[^,|]+)?', params):
                    continue
                params = re.sub(r'\s*:.*$', '', params)
            if re.search(r'(?<![A-Za-z0-9_])return(?![A-Za-z0-9_])', cbody) or cbody.lstrip().startswith('->'):
                continue
            rs = _receiver_start(toks, rev, i)
            if rs is None:
                continue
            if is_option is not None and not is_option(body[toks[rs].start:toks[i].start].strip()):
                continue
            hit = (rs, i, cl, name, params, cbody.strip(), default)
            break
        if hit is None:
            return body, done
        rs, i, cl, name, params, cbody, default = hit
        recv = body[toks[rs].start:toks[i].start].strip()
        if name == 'map':
            rep = '(match %s { Some(%s) => Some(%s), None => None })' % (recv, params, cbody)
        elif name == 'and_then':
            rep = '(match %s { Some(%s) => %s, None => None })' % (recv, params, cbody)
        elif name == 'unwrap_or_else':
            rep = '(match %s { Some(v__) => v__, None => %s })' % (recv, cbody)
        elif name == 'map_or':
            rep = '(match %s { Some(%s) => %s, None => %s })' % (recv, params, cbody, default)
        else:
            rep = '(match %s { Some(v__) => Ok(v__), None => Err(%s) })' % (recv, cbody)
        body = body[:toks[rs].start] + rep + body[toks[cl].end:]
        done.append(name)
    return body, done


def _split(text):
    from inline import split_args
    return split_args(text)


def option_oracle(src, f):
    """receiver text -> is it certainly an Option?  Yes for a parameter of the enclosing function declared `Option<..>` and for
    a call whose callee name resolves, over the whole crate, only to functions declared to return `Option<..>`"""
    from rsparse import Fn
    _, _, params, _, _ = src.fn_sig_parts(f, {})
    popt = set()
    for p in params:
        m = re.match(r'\s*(?:mut\s+)?([A-Za-z_][A-Za-z0-9_]*)\s*:\s*(?:&\s*)?Option\s*<', p)
        if m:
            popt.add(m.group(1))
    rets = {}
    def note(fn):
        r = src.fn_sig_parts(fn, {})[3] or ''
        rets.setdefault(fn.name, []).append(r.strip())
    for fn in src.free_fns.values():
        note(fn)
    for im in src.impls:
        for it in im.items:
            if isinstance(it, Fn):
                note(it)
    for tr in src.traits.values():
        for it in tr.items:
            if isinstance(it, Fn):
                note(it)

    def ok(recv):
        recv = recv.strip()
        if re.fullmatch(r'[A-Za-z_][A-Za-z0-9_]*', recv):
            return recv in popt
        m = re.search(r'([A-Za-z_][A-Za-z0-9_]*)\s*(?:::\s*<[^()]*>)?\s*\((?:[^()]|\((?:[^()]|\([^()]*\))*\))*\)\s*$', recv)
        if m and m.group(1) in rets:
            return all(r.startswith('Option<') or r.startswith('Option <') for r in rets[m.group(1)])
        return False
    return ok


if __name__ == '__main__':
    tests = [
        'nonzero_det(self.determinant()).map(|det| { Matrix2::new(self[1][1] / det, -self[0][1] / det) })',
        'let r = self.inverse_transform().and_then(|inverse| Some(inverse.transform_vector(vec)));',
        'fallback.unwrap_or_else(|| { let mut v = Vector3::unit_x().cross(src); v })',
        'x.cast::<T>().map(|v| v + 1)',
        'a.b.c(1, 2)[3].map_or(S::zero(), |m| m * two)',
        'foo.map(f)',
    ]
    for t in tests:
        print(desugar(t))
