"""Replay search on the real code (placeholder: returns no input yet)."""
def search(prop, failure, seed, tier):
    return {'input': None, 'note': 'no replay generator for this obligation yet'}

def replay_file(prop, path):
    import json
    d = json.load(open(path))
    print(json.dumps(d, indent=1)[:3000])
    return 0
