"""Replay search on the REAL code: for a failed Verus obligation whose postcondition is `result == spec_fn(arguments)`,
generate a small Rust program that links the real cgmath (path dependency on /repo), calls the real function on
pseudo-random inputs (seeded by VERIF_SEED) and compares every component with the spec function evaluated in f64
(the spec function's flat rendering from tools/sym.py, translated to Rust).  The first disagreement is the replayable input.
"""
import json
import os
import re
import shutil
import subprocess

from driver import ROOT, CACHE, sh
import sym
from sym import R, B, Struct

RDIR = os.path.join(CACHE, 'replay')


def all_struct_classes():
    out = {}
    stack = list(Struct.__subclasses__())
    while stack:
        c = stack.pop()
        stack += c.__subclasses__()
        if c.TYPE:
            out[c.TYPE.replace(' ', '')] = c
    return out


def rust_expr(a, env):
    k = a[0]
    if k == 'var':
        return env[a[1]]
    if k == 'lit':
        return '(%s as f64)' % (a[1] if '.' in a[1] else a[1] + '.0')
    if k == 'op':
        return '(%s %s %s)' % (rust_expr(a[2], env), a[1], rust_expr(a[3], env))
    if k == 'fn':
        args = [rust_expr(x, env) for x in a[2]]
        f = a[1]
        if f == 'r_pi':
            return 'std::f64::consts::PI'
        if f == 'r_atan2':
            return '(%s).atan2(%s)' % (args[0], args[1])
        if f == 'r_rem':
            return '(%s %% %s)' % (args[0], args[1])
        m = {'r_sqrt': 'sqrt', 'r_sin': 'sin', 'r_cos': 'cos', 'r_tan': 'tan', 'r_asin': 'asin', 'r_acos': 'acos', 'r_atan': 'atan', 'r_abs': 'abs'}
        return '(%s).%s()' % (args[0], m[f])
    if k == 'ite':
        return '(if %s { %s } else { %s })' % (rust_bool(a[1], env), rust_expr(a[2], env), rust_expr(a[3], env))
    raise ValueError(a)


def rust_bool(a, env):
    k = a[0]
    if k == 'cmp':
        return '(%s %s %s)' % (rust_expr(a[2], env), a[1], rust_expr(a[3], env))
    if k == 'and':
        return '(%s && %s)' % (rust_bool(a[1], env), rust_bool(a[2], env))
    if k == 'or':
        return '(%s || %s)' % (rust_bool(a[1], env), rust_bool(a[2], env))
    if k == 'not':
        return '(!%s)' % rust_bool(a[1], env)
    raise ValueError(a)


def leaves_paths(cls, prefix=''):
    out = []
    for fn, fc in cls.FIELDS:
        p = prefix + '.' + fn
        if fc is R:
            out.append(p)
        else:
            out += leaves_paths(fc, p)
    return out


def rust_type(t):
    """Verus/expansion type text -> concrete Rust type at f64"""
    t = re.sub(r"'[a-z_]+\s*", '', t)
    t = re.sub(r'\bSc\b|\bS\b', 'f64', t)
    t = t.replace('A::Unitless', 'f64')
    return t


def literal(cls, name, nvals):
    """Rust literal of a value of sym class cls built from fresh random scalars; returns (text, [scalar names])"""
    if cls is R:
        nm = 'x%d' % len(nvals)
        nvals.append(nm)
        return nm
    ctor = cls.TYPE.split('<')[0]
    parts = []
    tuple_like = all(fn.isdigit() for fn, _ in cls.FIELDS)
    for fn, fc in cls.FIELDS:
        parts.append(literal(fc, name, nvals) if tuple_like else '%s: %s' % (fn, literal(fc, name, nvals)))
    if tuple_like:
        return '%s(%s)' % (ctor, ', '.join(parts))
    return '%s { %s }' % (ctor, ', '.join(parts))


class NoReplay(Exception):
    pass


def plan(fn_rec, F):
    """-> dict(call text builder...) or raise NoReplay"""
    sig = fn_rec['sig']
    ens = fn_rec['ensures']
    classes = all_struct_classes()
    # find an ensures clause of the form  LHS == specfn(args)
    target = None
    for e in ens:
        m = re.match(r'^(ret(?:\.mat)?|\*final\(self\)) == ([a-z0-9_]+)\((.*)\)$', e.strip())
        if m and m.group(2) in F:
            target = m
            break
    if not target:
        raise NoReplay('postcondition is not of the form result == spec_fn(args) with a generated spec function')
    lhs, spec, argtext = target.group(1), target.group(2), target.group(3)
    from extract import split_top
    args = split_top(argtext) if argtext.strip() else []
    selfty = sig['selfty']
    params = sig['params']
    # parameter table: name -> (rust type text, is_ref, is_mut, sym class)
    ptab = []
    for p in params:
        p = p.strip()
        m = re.fullmatch(r"(&)?\s*('[a-z_]+\s+)?(mut\s+)?self", p)
        if m:
            st = rust_type(selfty)
            base = st.lstrip('&').strip()
            ptab.append(('self', base, bool(m.group(1)) or st.startswith('&'), bool(m.group(3)) and bool(m.group(1))))
            continue
        m = re.match(r'(?:mut\s+)?([A-Za-z_][A-Za-z0-9_]*)\s*:\s*(.*)$', p, re.S)
        if not m:
            raise NoReplay('cannot parse parameter %r' % p)
        ty = rust_type(m.group(2).strip())
        if ty == 'Self':
            ty = rust_type(selfty).lstrip('&').strip()
        if ty == 'A':
            ty = 'Rad<f64>'
        ptab.append((m.group(1), ty.lstrip('&').strip(), ty.startswith('&'), ty.startswith('&mut')))
    decls = []
    nvals = []
    env_by_param = {}
    for (nm, ty, is_ref, is_mut) in ptab:
        key = ty.replace('f64', 'Sc').replace(' ', '')
        if ty == 'f64':
            cls = R
        elif key in classes:
            cls = classes[key]
        elif ty in ('usize', 'isize', 'bool'):
            raise NoReplay('parameter type %s not supported by the replay generator' % ty)
        else:
            raise NoReplay('no symbolic class for parameter type %s' % ty)
        start = len(nvals)
        lit = literal(cls, nm, nvals)
        decls.append((nm, ty, is_ref, is_mut, cls, lit, nvals[start:]))
    # spec arguments -> symbolic values over the scalar names
    def sym_of(cls, names):
        it = iter(names)

        def build(c):
            if c is R:
                n = next(it)
                return R(n, n, ('var', n))
            return c(*[build(fc) for _, fc in c.FIELDS])
        return build(cls)
    symvals = {d[0]: sym_of(d[4], d[6]) for d in decls}
    call_args = []
    spec_args = []
    for a in args:
        a = a.strip()
        a2 = a.lstrip('*').strip()
        a2 = re.sub(r'^old\((.*)\)$', r'\1', a2)
        if a2 in symvals:
            spec_args.append(symvals[a2])
        else:
            raise NoReplay('spec argument %r is not a parameter' % a)
    res = F[spec](*spec_args)
    if isinstance(res, R):
        res_leaves = [res]
        res_paths = ['']
    elif isinstance(res, B):
        raise NoReplay('boolean result')
    else:
        res_leaves = res.leaves()
        res_paths = leaves_paths(type(res))
    env = {n: n for n in nvals}
    expected = [rust_expr(l.ast, env) for l in res_leaves]
    uses_fn = any(('.sqrt()' in e or '.sin()' in e or '.cos()' in e or '.tan()' in e or 'atan' in e or 'acos' in e or 'asin' in e or '/' in e or '%' in e) for e in expected)
    # the call
    trait = sig['trait']
    st = rust_type(selfty)
    if trait:
        callee = '<%s as %s>::%s' % (st, rust_type(re.sub(r'^(::)?(core|std)::[a-z]+::', '', trait)), sig['fn'])
    else:
        callee = '<%s>::%s' % (st.lstrip('&').strip(), sig['fn'])
    argv = []
    for (nm, ty, is_ref, is_mut, cls, lit, names) in decls:
        argv.append(('&mut ' if is_mut else '&' if is_ref else '') + 'v_' + nm)
    got_root = 'r'
    if lhs == '*final(self)':
        got_root = 'v_self'
    elif lhs == 'ret.mat':
        got_root = 'r'
        res_paths = ['.mat' + p for p in res_paths]
    return dict(nvals=nvals, decls=decls, callee=callee, argv=argv, got_root=got_root, paths=res_paths, expected=expected,
                exact=not uses_fn, spec=spec, lhs=lhs)


def program(pl, seed, n_points, fixed=None):
    lines = ['#![allow(unused_mut, unused_variables, unused_imports, non_snake_case, unused_parens)]', 'use cgmath::*;', 'use std::ops::*;',
             'fn main() {', '    let mut st: u64 = %du64.wrapping_mul(6364136223846793005).wrapping_add(1442695040888963407);' % seed,
             '    let mut rnd = move || -> f64 { st = st.wrapping_mul(6364136223846793005).wrapping_add(1442695040888963407); (((st >> 33) % 9) as i64 - 4) as f64 };',
             '    for it in 0..%d {' % n_points]
    for k, n in enumerate(pl['nvals']):
        if fixed is not None:
            lines.append('        let %s: f64 = %r;' % (n, float(fixed[k])))
        else:
            lines.append('        let %s: f64 = rnd();' % n)
    for (nm, ty, is_ref, is_mut, cls, lit, names) in pl['decls']:
        lines.append('        let mut v_%s: %s = %s;' % (nm, ty, lit))
    lines.append('        let r = %s(%s);' % (pl['callee'], ', '.join(pl['argv'])))
    for path, exp in zip(pl['paths'], pl['expected']):
        lines.append('        { let got: f64 = %s%s; let want: f64 = %s;' % (pl['got_root'], path, exp))
        if pl['exact']:
            cond = 'got != want && !(got.is_nan() && want.is_nan())'
        else:
            cond = '(got - want).abs() > 1e-9 * (1.0 + want.abs()) && !(got.is_nan() || want.is_nan() || got.is_infinite() || want.is_infinite())'
        lines.append('          if %s { println!("MISMATCH component={} got={:?} want={:?} inputs={:?}", "%s", got, want, vec![%s]); return; } }' % (
            cond, path or 'result', ', '.join(pl['nvals'])))
    lines.append('    }')
    lines.append('    println!("AGREE points=%d");' % n_points)
    lines.append('}')
    return '\n'.join(lines) + '\n'


def build_and_run(text):
    os.makedirs(os.path.join(RDIR, 'src'), exist_ok=True)
    open(os.path.join(RDIR, 'Cargo.toml'), 'w').write(
        '[package]\nname = "cgmath-replay"\nversion = "0.1.0"\nedition = "2018"\n[dependencies]\ncgmath = { path = "/repo" }\n[workspace]\n')
    try:
        shutil.copy('/repo/Cargo.lock', os.path.join(RDIR, 'Cargo.lock'))
    except Exception:
        pass
    open(os.path.join(RDIR, 'src', 'main.rs'), 'w').write(text)
    env = dict(os.environ, CARGO_NET_OFFLINE='true')
    rc, so, se, _ = sh(['cargo', 'run', '--offline', '-q'], timeout=600, cwd=RDIR, env=env)
    return rc, so, se


def find_fn(prop, obligation, tier):
    """re-create the unit and find the function record + the spec dictionary F"""
    import units
    from extract import Source
    import driver
    src = Source(driver.expand())
    captured = {}
    # the unit builders create their F internally; re-run them and pick F up through the shared sym registry
    ulist = units.UNITS[prop](src, tier)
    for u in ulist:
        u.emit()
        for fr in u.functions:
            if fr['anchor'] == obligation:
                return fr, u
    return None, None


def spec_dict():
    """all generated spec functions (python callables) by name"""
    from sym import SpecLib
    import c_vector, c_point, c_matrix, c_quat, c_angle, c_rot, c_conv
    lib = SpecLib()
    F = c_vector.build(lib)
    c_point.build(lib, F)
    c_matrix.build(lib, F)
    c_matrix.build_c02(lib, F)
    c_quat.build(lib, F)
    c_angle.build(lib, F)
    c_rot.build(lib, F)
    c_conv.build(lib, F)
    try:
        import c_proj
        c_proj.build(lib, F)
    except Exception:
        pass
    return {k: v for k, v in F.items() if callable(v)}


def search(prop, failure, seed, tier):
    if 'pass' not in failure:
        return {'input': None, 'note': 'not a Verus obligation'}
    fr, u = find_fn(prop, failure.get('obligation'), tier)
    if fr is None:
        return {'input': None, 'note': 'function record not found'}
    F = spec_dict()
    import replan
    angle = (u.subst.get('A') or 'Rad<Sc>').replace('Sc', 'f64')
    try:
        pl = replan.plan(fr, F, angle)
    except replan.NoReplay as e:
        return {'input': None, 'note': 'no replay generator for this obligation: %s' % e, 'tags': fr.get('tags', [])}
    except Exception as e:
        return {'input': None, 'note': 'replay planner failed: %r' % (e,), 'tags': fr.get('tags', [])}
    npts = 2000 if tier == 'thorough' else 400
    rc, so, se = build_and_run(replan.program(pl, seed, npts))
    if rc != 0:
        return {'input': None, 'note': 'replay program failed to build/run: ' + (se or so)[-600:], 'tags': fr.get('tags', [])}
    names = pl['nvals'] + [iv for iv, _ in pl['ivals']]
    m = re.search(r'MISMATCH component=(\S*) got=(\S+) want=(\S+) inputs=\[(.*)\]', so)
    if m:
        vals = [float(x) for x in m.group(4).split(',') if x.strip()]
        return {'input': dict(zip(names, vals)), 'values': vals, 'component': m.group(1), 'got': m.group(2), 'want': m.group(3),
                'call': '%s(%s)' % (pl['callee'], ', '.join(pl['argv'])), 'clauses': [t for t, _ in pl['clauses']],
                'how': 'real cgmath (path dependency on /repo) evaluated at f64 on integer-valued inputs against the contract\'s ensures clauses; re-run with ./check %s --replay <this file>' % prop,
                'tags': fr.get('tags', [])}
    ma = re.search(r'AGREE points=(\d+)', so)
    used = int(ma.group(1)) if ma else 0
    return {'input': None, 'agree_points': used, 'tags': fr.get('tags', []), 'clauses_checked': [t for t, _ in pl['clauses']],
            'clauses_skipped': pl['skipped'], 'branch_free': bool(fr.get('branch_free')),
            'unguarded': all(ch.guard is None for _, ch in pl['clauses']),
            'note': 'the real function satisfies the replayable ensures clauses on %d pseudo-random points (of %d drawn)' % (used, npts)}


def replay_file(prop, path):
    d = json.load(open(path))
    rp = d.get('replay') or {}
    print('obligation: %s' % d.get('obligation'))
    if d.get('verifier') == 'kani':
        print('Kani counterexample (concrete playback unit test):\n%s' % (rp.get('input') or '(none)'))
        return 0
    if not rp.get('values'):
        print('no failing input recorded; verifier output:\n%s' % (d.get('verifier_output') or '')[:2000])
        return 0
    fr, u = find_fn(prop, d.get('obligation'), 'quick')
    F = spec_dict()
    import replan
    pl = replan.plan(fr, F, (u.subst.get('A') or 'Rad<Sc>').replace('Sc', 'f64'))
    rc, so, se = build_and_run(replan.program(pl, 1, 1, fixed=rp['values']))
    print(so.strip() or se[-500:])
    return 1 if 'MISMATCH' in so else 0
