#!/bin/bash
# expand.sh [features]  -> prints the path of the macro expansion of /repo's current working tree
# (cached under /verif/.cache by a content hash of the inputs of the build; never by time)
set -e
FEAT="${1:-}"
REPO="${VERIF_REPO:-/repo}"
CACHE=/verif/.cache
mkdir -p "$CACHE"
KEY=$( (cd "$REPO" && find src build.rs Cargo.toml Cargo.lock -type f 2>/dev/null | LC_ALL=C sort | xargs sha256sum; echo "feat=$FEAT") | sha256sum | cut -c1-24)
OUT="$CACHE/expanded-${FEAT:-default}-$KEY.rs"
if [ ! -s "$OUT" ]; then
  TMP="$OUT.tmp.$$"
  ARGS=""
  if [ -n "$FEAT" ]; then ARGS="--features $FEAT"; fi
  (
    flock 9
    if [ ! -s "$OUT" ]; then
      cd "$REPO"
      if ! RUSTC_BOOTSTRAP=1 CARGO_NET_OFFLINE=true cargo rustc --offline --lib $ARGS --target-dir "$CACHE/target" -- -Zunpretty=expanded > "$TMP" 2> "$OUT.err"; then
        cat "$OUT.err" >&2
        rm -f "$TMP"
        exit 3
      fi
      mv "$TMP" "$OUT"
    fi
  ) 9> "$CACHE/expand.lock"
  # keep the cache small
  ls -t "$CACHE"/expanded-*.rs 2>/dev/null | tail -n +9 | xargs -r rm -f
fi
echo "$OUT"
