"""Unit definitions: which functions / specs / lemmas make up the Verus file(s) of each property."""
import os, sys
HERE = os.path.dirname(os.path.abspath(__file__))
sys.path.insert(0, HERE)
sys.path.insert(0, os.path.join(os.path.dirname(HERE), 'contracts'))
from emit import Unit, Sel
from sym import SpecLib
import c_vector
import c_point
import c_matrix
import c_quat
import c_angle
import c_rot
import c_conv
import c_xform
import c_proj
import c_metric
import c_approx
import c_arc
import c_look
import re
import sym


def unit_C03(src, model='R'):
    u = Unit('C03', src, model)
    lib = SpecLib()
    F = c_vector.build(lib)
    u.spec_texts.append(lib.text())
    u.contract_fns.append(c_vector.contracts)
    c_vector.select_c03(u)
    if model == 'R':
        for L in c_vector.laws(F):
            pa, pb = L.render()
            u.lemma_texts.append(pa)
            u.poly_texts.append(pb)
    return u


def unit_C12(src, model='R'):
    u = Unit('C12', src, model)
    lib = SpecLib()
    F = c_vector.build(lib)
    c_point.build(lib, F)
    u.spec_texts.append(lib.text())
    u.contract_fns += [c_point.contracts, c_vector.contracts]
    c_vector.select_c03(u)
    c_point.select_c12(u)
    if model == 'R':
        for L in c_point.laws(F):
            pa, pb = L.render()
            u.lemma_texts.append(pa)
            u.poly_texts.append(pb)
    return u


def base_linear(u, transform_space=r'Point3<S>'):
    """vectors + points + matrices: spec library, contracts, selections shared by C01/C02 and the rotation units"""
    lib = SpecLib()
    F = c_vector.build(lib)
    c_point.build(lib, F)
    c_matrix.build(lib, F)
    u.spec_texts.append(c_matrix.idx_specs())
    u.extra_prelude.append(c_matrix.layout_prelude())
    u.contract_fns += [c_matrix.contracts, c_point.contracts, c_vector.contracts]
    c_vector.select_c03(u)
    c_point.select_c12(u)
    c_matrix.select_c01(u, transform_space)
    return lib, F


def add_laws(u, laws):
    for L in laws:
        pa, pb = L.render()
        u.lemma_texts.append(pa)
        u.poly_texts.append(pb)


def unit_C01(src, model='R'):
    u = Unit('C01', src, model)
    lib, F = base_linear(u)
    u.spec_texts.append(lib.text())
    add_laws(u, c_matrix.laws(F))
    return u


def unit_C02t(src):
    """twin of C02: `Transform<Point2<S>> for Matrix3<S>` (inverse_transform, inverse_transform_vector, concat_self)"""
    u = Unit('C02t', src, 'R')
    lib, F = base_linear(u, r'Point2<S>')
    c_matrix.build_c02(lib, F)
    u.spec_texts.append(lib.text())
    u.spec_texts.append(c_matrix.cf_spec())
    hints, polys, lemmas = c_matrix.c02_hints(F)
    u.hint_packs.append((lambda im, f: f.name in ('determinant', 'invert') and im is not None and im.module == 'matrix', polys, lemmas))
    u.contract_fns.insert(0, c_matrix.contracts_c02(hints))
    u.contract_fns.insert(0, c_matrix.contract_det_sub)
    u.select(Sel('SquareMatrix', c_matrix.MAT, ['determinant', 'invert']),
             Sel('Transform', c_matrix.MAT, ['inverse_transform', 'inverse_transform_vector', 'concat_self'], trait_args=r'Point2<S>'))
    u.free_fns.append(('matrix', 'det_sub_proc_unsafe'))
    u.assume_pred = lambda im, f: not (im is not None and trait_name_of(im) == 'Transform')
    return u


def unit_C08m(src, space):
    """C08 also owns the Transform impls of Matrix3 (both flavours) and Matrix4: apply, concat, concat_self, inverse*"""
    u = Unit('C08m' + ('2' if 'Point2' in space else '3'), src, 'R')
    lib, F = base_linear(u, space)
    c_matrix.build_c02(lib, F)
    u.spec_texts.append(lib.text())
    u.spec_texts.append(c_matrix.cf_spec())
    hints, polys, lemmas = c_matrix.c02_hints(F)
    u.hint_packs.append((lambda im, f: f.name in ('determinant', 'invert') and im is not None and im.module == 'matrix', polys, lemmas))
    u.contract_fns.insert(0, c_matrix.contracts_c02(hints))
    u.contract_fns.insert(0, c_matrix.contract_det_sub)
    u.select(Sel('SquareMatrix', c_matrix.MAT, ['determinant', 'invert']),
             Sel('Transform', c_matrix.MAT, ['inverse_transform', 'inverse_transform_vector', 'concat_self'], trait_args=space))
    u.free_fns.append(('matrix', 'det_sub_proc_unsafe'))
    u.assume_pred = lambda im, f: not (im is not None and trait_name_of(im) == 'Transform')
    return u


def unit_C02(src, model='R', dims=(2, 3, 4)):
    u = Unit('C02', src, model)
    lib, F = base_linear(u)
    c_matrix.build_c02(lib, F)
    u.spec_texts.append(lib.text())
    u.spec_texts.append(c_matrix.cf_spec())
    hints, polys, lemmas = c_matrix.c02_hints(F)
    u.poly_texts += polys
    u.lemma_texts += lemmas
    u.contract_fns.insert(0, c_matrix.contracts_c02(hints))
    u.contract_fns.insert(0, c_matrix.contract_det_sub)
    u.select(Sel('SquareMatrix', c_matrix.MAT, ['determinant', 'invert']),
             Sel('Transform', c_matrix.MAT, ['inverse_transform', 'inverse_transform_vector', 'concat_self'], trait_args=r'Point3<S>'))
    u.free_fns.append(('matrix', 'det_sub_proc_unsafe'))
    add_laws(u, c_matrix.laws_c02(F, dims))
    own = lambda im, f: (im is None and f.name == 'det_sub_proc_unsafe') or (im is not None and (
        f.name in ('determinant', 'invert', 'inverse_transform', 'inverse_transform_vector', 'concat_self', 'transpose', 'truncate_n', 'row')
        or (im.module == 'matrix' and trait_name_of(im) == 'Mul')))
    u.assume_pred = lambda im, f: not own(im, f)
    return u


def unit_C04(src, model='R'):
    u = Unit('C04', src, model)
    lib, F = complete_base(u, 'Rad')
    own = lambda im, f: im is not None and im.module == 'quaternion' and (
        trait_name_of(im) in (None, 'Clone', 'PartialEq', 'Zero', 'One', 'VectorSpace', 'MetricSpace', 'InnerSpace', 'Neg', 'Add', 'Sub', 'Mul', 'Div', 'Rem',
                              'AddAssign', 'SubAssign', 'MulAssign', 'DivAssign', 'RemAssign', 'Rotation')
        and f.name in ('new', 'from_sv', 'conjugate', 'clone', 'eq', 'zero', 'one', 'lerp', 'distance2', 'dot', 'magnitude2', 'neg', 'add', 'sub', 'mul', 'div', 'rem',
                       'add_assign', 'sub_assign', 'mul_assign', 'div_assign', 'rem_assign', 'rotate_vector', 'invert', 'rotate_point'))
    u.assume_pred = lambda im, f: not own(im, f)
    u.lemma_texts.append(sym.HELPER_LEMMAS)
    add_laws(u, c_quat.laws(F))
    u.lemma_texts.append(c_quat.handwritten_laws())
    return u


def unit_C13(src, model='R'):
    u = Unit('C13', src, model)
    lib = SpecLib()
    F = {}
    c_angle.build(lib, F)
    u.spec_texts.append(lib.text())
    u.spec_texts.append(c_angle.text_specs())
    u.contract_fns += [c_angle.contracts]
    c_angle.select_c13(u)
    u.struct_names = ['Rad', 'Deg']
    u.extra_prelude.append(c_angle.trusted_prelude())
    u.lemma_texts.append(sym.HELPER_LEMMAS)
    u.lemma_texts.append(c_angle.handwritten_laws())
    add_laws(u, c_angle.laws(F))
    return u


def full_base(u, angle_kind='Rad'):
    """everything proved by C01-C04, C12, C13 (spec library + contracts + selections); callers set u.assume_pred so that
    only their own functions are verified with bodies, the rest are assumed contracts (proved by the owning unit)"""
    lib, F = base_linear(u)
    c_matrix.build_c02(lib, F)
    c_quat.build(lib, F)
    c_angle.build(lib, F)
    c_rot.build(lib, F)
    u.spec_texts.append(c_matrix.cf_spec())
    u.spec_texts.append(c_angle.text_specs())
    hints, polys, lemmas = c_matrix.c02_hints(F)
    u.hint_packs.append((lambda im, f: f.name in ('determinant', 'invert') and im is not None and im.module == 'matrix', polys, lemmas))
    u.contract_fns.insert(0, c_matrix.contracts_c02(hints))
    u.contract_fns.insert(0, c_matrix.contract_det_sub)
    u.contract_fns += [c_quat.contracts, c_angle.contracts, c_approx.predicate_contracts]
    u.select(Sel('SquareMatrix', c_matrix.MAT, ['determinant', 'invert', 'is_invertible', 'is_diagonal', 'is_symmetric']),
             Sel('Transform', c_matrix.MAT, ['inverse_transform', 'inverse_transform_vector', 'concat_self'], trait_args=r'Point3<S>'))
    u.free_fns.append(('matrix', 'det_sub_proc_unsafe'))
    c_quat.select_c04(u)
    c_angle.select_c13(u)
    u.extra_prelude.append(c_angle.trusted_prelude())
    u.subst['A'] = '%s<Sc>' % angle_kind
    u.angle_kind = angle_kind
    return lib, F


def complete_base(u, angle_kind='Rad'):
    """every contract family that needs no per-instantiation substitution (all but Decomposed, look_*, approx, projection):
    used by units that want any call into the crate to resolve (an un-contracted callee is exit 2, never an alarm)"""
    lib, F = full_base(u, angle_kind)
    c_conv.build(lib, F)
    u.spec_texts.append(lib.text())
    u.spec_texts.append(c_conv.text_specs())
    u.spec_texts.append(c_metric.text_specs())
    u.spec_texts.append(c_arc.text_specs())
    rh, rp = c_rot.shape_hints(F)
    u.hint_packs.append((lambda im, f: im is not None and im.module == 'matrix' and re.match(r'from_angle|from_axis_angle', f.name) is not None, rp, []))
    u.contract_fns.insert(0, c_rot.contracts(rh, angle_kind))
    c_rot.select_c06(u)
    hints, polys = c_conv.shape_hints(F)
    u.hint_packs.append((lambda im, f: im is not None and f.name == 'from' and ('Quaternion' in im.header or 'Euler' in im.header), polys, []))
    u.contract_fns.insert(0, c_conv.contracts(hints, angle_kind))
    c_conv.select(u)
    u.contract_fns.insert(0, c_metric.contracts)
    c_metric.select(u)
    u.contract_fns.insert(0, c_arc.contracts)
    c_arc.select(u)
    return lib, F


def unit_C17(src):
    """every by-value / by-reference / compound-assignment expansion of every operator carries the same postcondition"""
    from extract import OP_TRAITS
    u = Unit('C17', src, 'R')
    lib, F = complete_base(u, 'Rad')
    own = lambda im, f: im is not None and trait_name_of(im) in OP_TRAITS and im.module in ('vector', 'point', 'matrix', 'quaternion', 'angle', 'rotation')
    u.assume_pred = lambda im, f: not own(im, f)
    return u


def as_model_U(u, name):
    """turn a model-R unit into its advisory model-U twin: same functions, same contracts, scalar arithmetic uninterpreted,
    no law lemmas, no hints (a function that needs either is decided by the model-R unit only)"""
    u.name = name
    u.model = 'U'
    u.advisory = True
    u.no_hints = True
    u.lemma_texts = []
    u.poly_texts = []
    u.hint_packs = []
    return u


def unit_C17u(src):
    """the same operator impls under model U: the scalar arithmetic is uninterpreted, so what verifies here holds for every scalar
    type (floats with rounding, wrapping integers): the spellings compute the same value by the same operations.  Matrix x
    vector / matrix x matrix (dimension 3, 4) and the quaternion product are left to model R: their spec functions are
    written in another association than the code, which only real arithmetic identifies."""
    u = unit_C17(src)
    u.name = 'C17u'
    u.model = 'U'
    base = u.assume_pred

    def needs_field(im, f):
        if im is None or trait_name_of(im) != 'Mul':
            return False
        st = re.sub(r"^&\s*'[a-z]+\s+", '', im.selfty)
        from emit import trait_args
        ta = re.sub(r"^&\s*'[a-z]+\s+", '', trait_args(im.trait).strip())
        if re.match(r'Matrix[34]<', st) and re.match(r'(Vector|Matrix)[34]<', ta):
            return True
        return st.startswith('Quaternion<') and ta.startswith('Quaternion<')
    return as_model_U(u, 'C17u')


def swizzle_words(letters, maxlen):
    import itertools
    return [''.join(w) for n in range(1, maxlen + 1) for w in itertools.product(letters, repeat=n)]


def unit_C16s(src_swz):
    """the 550 swizzle accessors (expansion with --features swizzle); each contract is generated from the accessor NAME"""
    from emit import Contract
    from common import base_type
    u = Unit('C16s', src_swz, 'R')
    lib = SpecLib()
    F = c_vector.build(lib)
    c_point.build(lib, F)
    u.spec_texts.append(lib.text())
    expected = {}
    for n in (1, 2, 3, 4):
        expected['Vector%d' % n] = set(swizzle_words('xyzw'[:n], 4))
    for n in (1, 2, 3):
        expected['Point%d' % n] = set(swizzle_words('xyz'[:n], 3))

    def contracts(unit, im, f):
        if im is None or im.trait is not None:
            return None
        st, _ = base_type(im.selfty)
        if st in expected and re.fullmatch(r'[xyzw]{1,4}', f.name):
            if f.name not in expected[st]:
                return None
            pre = ('v%d' if st.startswith('Vector') else 'p%d') % len(f.name)
            return Contract(ensures=['ret == %s_new(%s)' % (pre, ', '.join('self.' + c for c in f.name))])
        return None
    u.contract_fns += [contracts, c_point.contracts, c_vector.contracts]
    for ty, words in expected.items():
        u.select(Sel(None, r'%s<S>' % ty, ['new'] + sorted(words)))
    u.select(Sel('Clone', r'(Vector[1-4]|Point[1-3])<S>'), Sel('Copy', r'(Vector[1-4]|Point[1-3])<S>'))
    u.struct_names = ['Vector1', 'Vector2', 'Vector3', 'Vector4', 'Point1', 'Point2', 'Point3']
    u.expected_swizzles = expected
    return u


PRIMS = ['usize', 'u8', 'u16', 'u32', 'u64', 'isize', 'i8', 'i16', 'i32', 'i64', 'f32', 'f64']


def unit_C17p(src):
    """scalar on the left for each of the twelve primitive types: each primitive is an opaque model type (prelude_P)"""
    from emit import Contract, trait_name, trait_args
    from common import base_type
    u = Unit('C17p', src, 'P')
    u.subst = {}
    u.canaries = []
    XY = 'xyzw'

    def lit(ty, prim, op, arg):
        """struct literal of  prim OP arg  component-wise, scalar as LEFT operand"""
        n = int(ty[-1]) if ty[-1].isdigit() else 0
        pm = 'pm_%s_%s' % (op, prim)
        if ty.startswith('Vector') or ty.startswith('Point'):
            return '(%s { %s })' % (ty, ', '.join('%s: %s(self, %s.%s)' % (f, pm, arg, f) for f in XY[:n]))
        if ty.startswith('Matrix'):
            return '(%s { %s })' % (ty, ', '.join('%s: %s' % (c, lit('Vector%d' % n, prim, op, '%s.%s' % (arg, c))) for c in XY[:n]))
        if ty == 'Quaternion':
            return '(Quaternion { v: %s, s: %s(self, %s.s) })' % (lit('Vector3', prim, op, arg + '.v'), pm, arg)

    def contracts(unit, im, f):
        if im is None:
            return None
        tn = trait_name(im.trait)
        if im.selfty in PRIMS and tn in ('Mul', 'Div', 'Rem'):
            ta = trait_args(im.trait)
            ty, rref = base_type(ta)
            arg = '(*$1)' if rref else '$1'
            sp = lit(ty, im.selfty, tn.lower(), arg)
            return Contract(ensures=['ret == ' + sp], spec=lit(ty, im.selfty, tn.lower(), '(*rhs)' if rref else 'rhs'))
        st, _ = base_type(im.selfty)
        if tn is None and f.name == 'new' and re.fullmatch(r'(Vector|Point)[1-4]', st):
            n = int(st[-1])
            return Contract(ensures=['ret == (%s { %s })' % (st, ', '.join('%s: $%d' % (XY[i], i) for i in range(n)))])
        if tn is None and f.name == 'from_sv' and st == 'Quaternion':
            return Contract(ensures=['ret == (Quaternion { v: $1, s: $0 })'])
        if tn == 'Clone':
            return Contract(ensures=[])
        return None
    u.contract_fns.append(contracts)
    u.assume_pred = lambda im, f: im is not None and trait_name(im.trait) == 'Clone'
    prim_re = '(' + '|'.join(PRIMS) + ')'
    u.select(Sel('Mul', prim_re), Sel('Div', prim_re), Sel('Rem', prim_re),
             Sel(None, r'(Vector[1-4]|Point[1-3])<S>', ['new'], generics=r'<S>'), Sel(None, r'Quaternion<S>', ['from_sv'], generics=r'<S>'),
             Sel('Clone', r'(Vector[1-4]|Point[1-3]|Matrix[2-4]|Quaternion)<S>'), Sel('Copy', r'(Vector[1-4]|Point[1-3]|Matrix[2-4]|Quaternion)<S>'))
    for p in PRIMS:
        u.scoped_subst.append((lambda im, p=p: im.selfty == p, {p: 'P_' + p}))
    u.struct_names = ['Vector1', 'Vector2', 'Vector3', 'Vector4', 'Point1', 'Point2', 'Point3', 'Matrix2', 'Matrix3', 'Matrix4', 'Quaternion']
    return u


def unit_C19g(src):
    """cast<T>() of every compound type, generic in source and target scalar, NumCast::from uninterpreted"""
    from emit import Contract, trait_name
    from common import base_type
    u = Unit('C19g', src, 'N')
    u.subst = {}
    u.canaries = []
    XY = 'xyzw'
    specs = []
    for kind, dims in (('Vector', (1, 2, 3, 4)), ('Point', (1, 2, 3))):
        for n in dims:
            ty = '%s%d' % (kind, n)
            fs = XY[:n]
            none = ' || '.join('T::cast_spec(v.%s).is_none()' % f for f in fs)
            some = ', '.join('%s: T::cast_spec(v.%s).unwrap()' % (f, f) for f in fs)
            specs.append('pub open spec fn %s_cast<S, T: NumCast>(v: %s<S>) -> Option<%s<T>> { if %s { None } else { Some(%s { %s }) } }\n' % (ty.lower(), ty, ty, none, ty, some))
    for n in (2, 3, 4):
        ty = 'Matrix%d' % n
        fs = XY[:n]
        none = ' || '.join('vector%d_cast::<S, T>(m.%s).is_none()' % (n, f) for f in fs)
        some = ', '.join('%s: vector%d_cast::<S, T>(m.%s).unwrap()' % (f, n, f) for f in fs)
        specs.append('pub open spec fn %s_cast<S, T: NumCast>(m: %s<S>) -> Option<%s<T>> { if %s { None } else { Some(%s { %s }) } }\n' % (ty.lower(), ty, ty, none, ty, some))
    specs.append('pub open spec fn quaternion_cast<S, T: NumCast>(q: Quaternion<S>) -> Option<Quaternion<T>> { if T::cast_spec(q.s).is_none() || vector3_cast::<S, T>(q.v).is_none() { None } else { Some(Quaternion { v: vector3_cast::<S, T>(q.v).unwrap(), s: T::cast_spec(q.s).unwrap() }) } }\n')
    u.spec_texts.append(''.join(specs))

    def contracts(unit, im, f):
        if im is None:
            return None
        st, _ = base_type(im.selfty)
        if im.trait is None and f.name == 'cast':
            return Contract(ensures=['ret == %s_cast::<S, T>(*self)' % st.lower()])
        if im.trait is None and f.name == 'from_sv' and st == 'Quaternion':
            return Contract(ensures=['ret == (Quaternion { v: $1, s: $0 })'])
        if im.trait is None and f.name == 'new' and re.fullmatch(r'(Vector|Point)[1-4]', st):
            n = int(st[-1])
            return Contract(ensures=['ret == (%s { %s })' % (st, ', '.join('%s: $%d' % (XY[k], k) for k in range(n)))])
        if im.trait is None and f.name == 'new' and st == 'Quaternion':
            return Contract(ensures=['ret == (Quaternion { v: (Vector3 { x: $1, y: $2, z: $3 }), s: $0 })'])
        if trait_name(im.trait) == 'Clone':
            return Contract(ensures=[])
        return None
    u.contract_fns.append(contracts)
    u.assume_pred = lambda im, f: im is not None and trait_name(im.trait) == 'Clone'
    tys = r'(Vector[1-4]|Point[1-3]|Matrix[2-4]|Quaternion)<S>'
    u.select(Sel(None, tys, ['cast']), Sel(None, r'Quaternion<S>', ['from_sv', 'new'], generics=r'<S>'), Sel(None, r'(Vector[1-4]|Point[1-3])<S>', ['new'], generics=r'<S>'), Sel('Clone', tys), Sel('Copy', tys))
    u.struct_names = ['Vector1', 'Vector2', 'Vector3', 'Vector4', 'Point1', 'Point2', 'Point3', 'Matrix2', 'Matrix3', 'Matrix4', 'Quaternion']
    return u


def unit_C06(src, angle_kind='Rad'):
    u = Unit('C06' + ('' if angle_kind == 'Rad' else 'deg'), src, 'R')
    lib, F = full_base(u, angle_kind)
    u.spec_texts.append(lib.text())
    hints, polys = c_rot.shape_hints(F)
    u.poly_texts += polys
    u.contract_fns.insert(0, c_rot.contracts(hints, angle_kind))
    c_rot.select_c06(u)
    own = lambda im, f: (im is not None and (im.module == 'rotation' or
                         (im.module == 'matrix' and re.match(r'from_angle|from_axis_angle', f.name)) or
                         (im.module == 'quaternion' and trait_name_of(im) == 'Rotation3') or
                         (trait_name_of(im) == 'Rotation' and f.name in ('rotate_point',))))
    u.assume_pred = lambda im, f: not own(im, f)
    if angle_kind == 'Rad':
        u.lemma_texts.append(sym.HELPER_LEMMAS)
        u.lemma_texts.append(c_rot.handwritten_laws())
        add_laws(u, c_rot.laws(F))
    return u


def unit_conv(src, prop, angle_kind='Rad'):
    """C05 (quaternion / matrix / Basis3 conversions) and C07 (Euler conversions)"""
    u = Unit(prop + ('' if angle_kind == 'Rad' else 'deg'), src, 'R')
    lib, F = full_base(u, angle_kind)
    c_conv.build(lib, F)
    u.spec_texts.append(lib.text())
    u.spec_texts.append(c_conv.text_specs())
    rh, rp = c_rot.shape_hints(F)
    u.hint_packs.append((lambda im, f: im is not None and im.module == 'matrix' and re.match(r'from_angle|from_axis_angle', f.name) is not None, rp, []))
    u.contract_fns.insert(0, c_rot.contracts(rh, angle_kind))
    c_rot.select_c06(u)
    hints, polys = c_conv.shape_hints(F)
    u.poly_texts += polys
    u.contract_fns.insert(0, c_conv.contracts(hints, angle_kind))
    c_conv.select(u)
    if prop == 'C05':
        own = lambda im, f: im is not None and trait_name_of(im) == 'From' and f.name == 'from' and 'Euler' not in im.header and (
            'Quaternion' in im.header) or (im is not None and f.name == 'from_quaternion') or (
            im is not None and im.module == 'rotation' and 'Basis3' in im.header and trait_name_of(im) in ('Mul', 'AsRef', 'From', 'One', 'Rotation')
            and f.name in ('mul', 'as_ref', 'from', 'one', 'rotate_vector'))
    else:
        # the statement names from_angle_x/y/z as the reference rotation: they are verified here too
        own = lambda im, f: im is not None and ('Euler' in im.header or f.name in ('from_angle_x', 'from_angle_y', 'from_angle_z'))
    if angle_kind != 'Rad':
        # the Deg instantiation of rule R3 owns only code that is generic in the angle type `A`; everything else (e.g.
        # From<Quaternion> for Euler<Rad<S>>) is the same text as in the Rad unit and is verified there
        own_rad = own
        generic_in_a = lambda im, f: re.search(r'(?<![A-Za-z0-9_])A(?![A-Za-z0-9_])', ((im.generics or '') if im is not None else '') + ' ' + src.p.text(f.sig[0], f.sig[1])) is not None
        own = lambda im, f: own_rad(im, f) and generic_in_a(im, f)
        u.close_exclude = lambda im, f: im is not None and 'Euler<Rad<S>>' in im.header
    u.assume_pred = lambda im, f: not own(im, f)
    if angle_kind == 'Rad':
        u.lemma_texts.append(sym.HELPER_LEMMAS)
        add_laws(u, c_conv.laws_c05(F) if prop == 'C05' else c_conv.laws_c07(F))
        if prop == 'C07':
            u.lemma_texts.append(c_conv.handwritten_c07())
        else:
            u.lemma_texts.append(open(os.path.join(os.path.dirname(os.path.dirname(os.path.abspath(__file__))), 'contracts', 'handwritten', 'c05_laws.rs')).read())
            u.lemma_texts.append(open(os.path.join(os.path.dirname(os.path.dirname(os.path.abspath(__file__))), 'contracts', 'handwritten', 'c05b_laws.rs')).read())
    return u


def unit_C08(src, k):
    I = c_xform.INST[k]
    u = Unit('C08' + k, src, 'R')
    lib, F = full_base(u, 'Rad')
    if k == 'b2':
        # the Point2 flavour of Transform for Matrix3 (Verus cannot hold both in one file)
        for sel in u.sels:
            if sel.trait == 'Transform' and sel.trait_args == r'Point3<S>':
                sel.trait_args = r'Point2<S>'
    c_conv.build(lib, F)
    u.spec_texts.append(lib.text())
    u.spec_texts.append(c_conv.text_specs())
    u.spec_texts.append(c_xform.text_specs(k))
    rh, rp = c_rot.shape_hints(F)
    u.hint_packs.append((lambda im, f: im is not None and im.module == 'matrix' and re.match(r'from_angle|from_axis_angle', f.name) is not None, rp, []))
    u.contract_fns.insert(0, c_rot.contracts(rh, 'Rad'))
    c_rot.select_c06(u)
    hints, polys = c_conv.shape_hints(F)
    u.hint_packs.append((lambda im, f: im is not None and f.name == 'from' and ('Quaternion' in im.header or 'Euler' in im.header), polys, []))
    u.contract_fns.insert(0, c_conv.contracts(hints, 'Rad'))
    c_conv.select(u)
    u.contract_fns.insert(0, c_xform.contracts(k))
    c_xform.select(u, k)
    u.scoped_subst.append((lambda im: 'Decomposed' in im.header, {'P': 'P_', 'R': 'R_', 'V': 'V_'}))
    u.field_types_override = {'Decomposed': [re.match(r'[A-Za-z0-9]+', I[x]).group(0) for x in ('P', 'R', 'V')] + (['Matrix4'] if k != 'b2' else ['Matrix3'])}
    u.assoc_fix.update({'P_::Diff': 'V_', 'P_::Scalar': 'Sc'})
    u.extra_prelude.append('verus! {\npub type P_ = %s;\npub type R_ = %s;\npub type V_ = %s;\n}\n' % (I['P'], I['R'], I['V']))
    u.trait_extras['Transform'] = dict(
        decl_items='spec fn xf_ok(&self) -> bool;',
        requires={'inverse_transform': ['$0.xf_ok()'], 'inverse_transform_vector': ['$0.xf_ok()']},
        impl_items=lambda im: ('open spec fn xf_ok(&self) -> bool { self.rot.inv_ok() }' if 'Decomposed' in im.selfty else 'open spec fn xf_ok(&self) -> bool { true }'))
    for L in c_matrix.laws(F):
        if L.name in ('m2_action', 'm3_action'):
            u.lemma_texts.append(L.render_assumed('C01'))
    if k != 'q':
        u.lemma_texts.append(sym.HELPER_LEMMAS)
        add_laws(u, c_xform.laws(F, k))
        u.lemma_texts.append(c_xform.handwritten_matrix_inverse(k))
        if k == 'b3':
            # one certified identity of the undo law (p_decb3_undo_id4) is seed-sensitive: it verifies in ~20 s under seeds 1, 5,
            # 11, 23 and hangs under seed 0 in some contexts; pass B of this unit starts from seed 1 (the retry of props.run_unit
            # covers the other seeds)
            u.verus_extra = {'B': ('--smt-option', 'smt.random_seed=1')}
    else:
        for L in c_quat.laws(F):
            if L.name in ('q_ring', 'q_inverse'):
                u.lemma_texts.append(L.render_assumed('C04'))
        u.lemma_texts += c_xform.laws_q(F)
    own = lambda im, f: im is not None and 'Decomposed' in im.header
    u.assume_pred = lambda im, f: not own(im, f)
    return u


def unit_C10(src, angle_kind='Rad'):
    u = Unit('C10' + ('' if angle_kind == 'Rad' else 'deg'), src, 'R')
    lib, F = full_base(u, angle_kind)
    c_proj.build(lib, F)
    u.spec_texts.append(lib.text())
    u.spec_texts.append(c_proj.text_specs())
    u.to_rad = (lambda x: x) if angle_kind == 'Rad' else (lambda x: 'deg_to_rad(%s)' % x)
    u.contract_fns.insert(0, c_proj.contracts)
    c_proj.select(u)
    own = lambda im, f: f.module == 'projection'
    u.assume_pred = lambda im, f: not own(im, f)
    if angle_kind == 'Rad':
        u.lemma_texts.append(sym.HELPER_LEMMAS)
        add_laws(u, c_proj.laws(F))
    return u


def unit_C11(src):
    u = Unit('C11', src, 'R')
    lib, F = full_base(u, 'Rad')
    u.spec_texts.append(lib.text())
    u.spec_texts.append(c_metric.text_specs())
    u.contract_fns.insert(0, c_metric.contracts)
    c_metric.select(u)
    own = lambda im, f: im is not None and ((trait_name_of(im) == 'InnerSpace' and f.name in ('magnitude', 'normalize', 'normalize_to', 'project_on', 'angle', 'is_perpendicular'))
                                            or (trait_name_of(im) == 'InnerSpace' and f.name == 'magnitude2')
                                            or (trait_name_of(im) == 'MetricSpace' and f.name in ('distance', 'distance2')))
    u.assume_pred = lambda im, f: not own(im, f)
    u.lemma_texts.append(sym.HELPER_LEMMAS)
    for L in c_vector.laws(F):
        if L.name.endswith('_scalar'):
            u.lemma_texts.append(L.render_assumed('C03'))
    add_laws(u, c_metric.laws(F))
    u.lemma_texts.append(c_metric.handwritten())
    cs, cstext = c_metric.cs_laws(F)
    add_laws(u, cs)
    u.lemma_texts.append(cstext)
    u.lemma_texts.append(open(os.path.join(os.path.dirname(os.path.dirname(os.path.abspath(__file__))), 'contracts', 'handwritten', 'c11_laws.rs')).read())
    return u


def unit_C18(src):
    u = Unit('C18', src, 'R')
    lib, F = full_base(u, 'Rad')
    c_conv.build(lib, F)
    u.spec_texts.append(lib.text())
    u.spec_texts.append(c_conv.text_specs())
    u.spec_texts.append(c_approx.text_specs())
    rh, rp = c_rot.shape_hints(F)
    u.hint_packs.append((lambda im, f: im is not None and im.module == 'matrix' and re.match(r'from_angle|from_axis_angle', f.name) is not None, rp, []))
    u.contract_fns.insert(0, c_rot.contracts(rh, 'Rad'))
    c_rot.select_c06(u)
    hints, polys = c_conv.shape_hints(F)
    u.hint_packs.append((lambda im, f: im is not None and f.name == 'from' and ('Quaternion' in im.header or 'Euler' in im.header), polys, []))
    u.contract_fns.insert(0, c_conv.contracts(hints, 'Rad'))
    c_conv.select(u)
    u.contract_fns.insert(0, c_approx.contracts)
    c_approx.select(u)
    u.assoc_fix.update({'Sc::Epsilon': 'Sc', 'A_::Epsilon': 'Sc', 'V_::Scalar': 'Sc'})
    u.extra_prelude.append('verus! {\npub type A_ = Rad<Sc>;\npub type R_ = Quaternion<Sc>;\npub type V_ = Vector3<Sc>;\n}\n')
    is_apx = lambda im: trait_name_of(im) in ('AbsDiffEq', 'RelativeEq', 'UlpsEq')
    u.scoped_subst.append((lambda im: is_apx(im) and 'Euler' in im.header, {'A': 'A_'}))
    u.scoped_subst.append((lambda im: is_apx(im) and 'Decomposed' in im.header, {'S': 'V_', 'R': 'R_', 'E': 'Sc'}))
    own = lambda im, f: im is not None and (is_apx(im) or f.name in ('is_finite', 'is_identity', 'is_invertible', 'is_diagonal', 'is_symmetric')
                                            or (f.name == 'is_zero' and 'Vector' not in im.header))
    u.assume_pred = lambda im, f: not own(im, f)
    u.lemma_texts.append(c_approx.handwritten())
    return u


def unit_arc(src, prop):
    """C15 (between_vectors, from_arc) and C14 (nlerp, slerp, lerp)"""
    u = Unit(prop, src, 'R')
    lib, F = full_base(u, 'Rad')
    c_conv.build(lib, F)
    u.spec_texts.append(lib.text())
    u.spec_texts.append(c_conv.text_specs())
    u.spec_texts.append(c_arc.text_specs())
    rh, rp = c_rot.shape_hints(F)
    u.hint_packs.append((lambda im, f: im is not None and im.module == 'matrix' and re.match(r'from_angle|from_axis_angle', f.name) is not None, rp, []))
    u.contract_fns.insert(0, c_rot.contracts(rh, 'Rad'))
    c_rot.select_c06(u)
    hints, polys = c_conv.shape_hints(F)
    u.hint_packs.append((lambda im, f: im is not None and f.name == 'from' and ('Quaternion' in im.header or 'Euler' in im.header), polys, []))
    u.contract_fns.insert(0, c_conv.contracts(hints, 'Rad'))
    c_conv.select(u)
    u.spec_texts.append(c_metric.text_specs())
    u.contract_fns.insert(0, c_metric.contracts)
    c_metric.select(u)
    u.contract_fns.insert(0, c_arc.contracts)
    c_arc.select(u)
    if prop == 'C15':
        own = lambda im, f: im is not None and f.name in ('between_vectors', 'from_arc')
    else:
        own = lambda im, f: im is not None and (f.name in ('nlerp', 'slerp') or (f.name == 'lerp'))
    u.assume_pred = lambda im, f: not own(im, f)
    u.lemma_texts.append(sym.HELPER_LEMMAS)
    add_laws(u, c_arc.laws(F) if prop == 'C15' else c_arc.laws_c14(F))
    hw = os.path.join(os.path.dirname(os.path.dirname(os.path.abspath(__file__))), 'contracts', 'handwritten')
    if prop == 'C14':
        u.lemma_texts.append(open(os.path.join(hw, 'c14_laws.rs')).read())
        u.poly_texts.append(open(os.path.join(hw, 'c14_poly.rs')).read())
    else:
        for L in c_arc.laws_c14(F):
            if L.name == 'q_normalize':
                add_laws(u, [L])
        u.lemma_texts.append(open(os.path.join(hw, 'c15_laws.rs')).read())
        u.poly_texts.append(open(os.path.join(hw, 'c15_poly.rs')).read())
        u.lemma_texts.append(open(os.path.join(hw, 'c15c_laws.rs')).read())
        u.poly_texts.append(open(os.path.join(hw, 'c15c_poly.rs')).read())
    return u


def unit_C09i(src):
    """twin of C09: the inherent (deprecated) Matrix3::look_at / Matrix4::look_at"""
    u = Unit('C09i', src, 'R')
    lib, F = full_base(u, 'Rad')
    u.spec_texts.append(lib.text())
    u.spec_texts.append(c_metric.text_specs())
    u.spec_texts.append(c_look.text_specs())
    u.contract_fns.insert(0, c_metric.contracts)
    c_metric.select(u)
    u.contract_fns.insert(0, c_look.contracts)
    c_look.select(u, None, inherent_look_at=True)
    own = lambda im, f: im is not None and f.name == 'look_at'
    u.assume_pred = lambda im, f: not own(im, f)
    return u


def unit_C09(src, k):
    I = c_xform.INST[k]
    u = Unit('C09' + k, src, 'R')
    lib, F = full_base(u, 'Rad')
    space = r'Point2<S>' if k == 'b2' else r'Point3<S>'
    if k == 'b2':
        for sel in u.sels:
            if sel.trait == 'Transform' and sel.trait_args == r'Point3<S>':
                sel.trait_args = r'Point2<S>'
    c_conv.build(lib, F)
    u.spec_texts.append(lib.text())
    u.spec_texts.append(c_conv.text_specs())
    u.spec_texts.append(c_metric.text_specs())
    u.spec_texts.append(c_xform.text_specs(k))
    u.spec_texts.append(c_look.text_specs())
    rh, rp = c_rot.shape_hints(F)
    u.hint_packs.append((lambda im, f: im is not None and im.module == 'matrix' and re.match(r'from_angle|from_axis_angle', f.name) is not None, rp, []))
    u.contract_fns.insert(0, c_rot.contracts(rh, 'Rad'))
    c_rot.select_c06(u)
    hints, polys = c_conv.shape_hints(F)
    u.hint_packs.append((lambda im, f: im is not None and f.name == 'from' and ('Quaternion' in im.header or 'Euler' in im.header), polys, []))
    u.contract_fns.insert(0, c_conv.contracts(hints, 'Rad'))
    c_conv.select(u)
    u.contract_fns.insert(0, c_metric.contracts)
    c_metric.select(u)
    u.contract_fns.insert(0, c_xform.contracts(k))
    c_xform.select(u, k)
    u.dec_kind = k
    u.contract_fns.insert(0, c_look.contracts)
    c_look.select(u, space)
    u.scoped_subst.append((lambda im: 'Decomposed' in im.header, {'P': 'P_', 'R': 'R_', 'V': 'V_'}))
    u.field_types_override = {'Decomposed': [re.match(r'[A-Za-z0-9]+', I[x]).group(0) for x in ('P', 'R', 'V')] + (['Matrix4'] if k != 'b2' else ['Matrix3'])}
    u.assoc_fix.update({'P_::Diff': 'V_', 'P_::Scalar': 'Sc'})
    u.extra_prelude.append('verus! {\npub type P_ = %s;\npub type R_ = %s;\npub type V_ = %s;\n}\n' % (I['P'], I['R'], I['V']))
    u.trait_extras['Transform'] = dict(
        decl_items='spec fn xf_ok(&self) -> bool;',
        requires={'inverse_transform': ['$0.xf_ok()'], 'inverse_transform_vector': ['$0.xf_ok()']},
        impl_items=lambda im: ('open spec fn xf_ok(&self) -> bool { self.rot.inv_ok() }' if 'Decomposed' in im.selfty else 'open spec fn xf_ok(&self) -> bool { true }'))
    own = lambda im, f: im is not None and f.name.startswith('look_')
    u.assume_pred = lambda im, f: not own(im, f)
    if k == 'q':
        u.lemma_texts.append(sym.HELPER_LEMMAS)
        add_laws(u, c_look.laws(F))
        for L in c_matrix.laws(F):
            if L.name == 'm3_action':
                u.lemma_texts.append(L.render_assumed('C01'))
        hw = os.path.join(os.path.dirname(os.path.dirname(os.path.abspath(__file__))), 'contracts', 'handwritten')
        u.lemma_texts.append(open(os.path.join(hw, 'c09_laws.rs')).read())
        u.lemma_texts.append(open(os.path.join(hw, 'c09b_laws.rs')).read())
        u.poly_texts.append(open(os.path.join(hw, 'c09_poly.rs')).read())
    return u


def trait_name_of(im):
    from emit import trait_name
    return trait_name(im.trait)


def unit_C01t(src, model='R'):
    """twin of C01 holding `Transform<Point2<S>> for Matrix3<S>` (see c_matrix.select_c01)"""
    u = Unit('C01t', src, model)
    lib, F = base_linear(u, r'Point2<S>')
    u.spec_texts.append(lib.text())
    return u


def Source_swz():
    import driver
    from extract import Source
    return Source(driver.expand('swizzle'))


def build_C03(src, tier):
    return [unit_C03(src, 'R'), as_model_U(unit_C03(src, 'R'), 'C03u')]


UNITS = {'C19': lambda src, tier: [unit_C19g(src)], 'C16': lambda src, tier: [unit_C16s(Source_swz())], 'C17': lambda src, tier: [unit_C17(src), unit_C17p(src), unit_C17u(src)], 'C09': lambda src, tier: [unit_C09(src, 'q'), unit_C09(src, 'b3'), unit_C09(src, 'b2'), unit_C09i(src)], 'C15': lambda src, tier: [unit_arc(src, 'C15')], 'C14': lambda src, tier: [unit_arc(src, 'C14')], 'C18': lambda src, tier: [unit_C18(src)], 'C11': lambda src, tier: [unit_C11(src)], 'C10': lambda src, tier: [unit_C10(src, 'Rad'), unit_C10(src, 'Deg')], 'C08': lambda src, tier: [unit_C08(src, 'q'), unit_C08(src, 'b3'), unit_C08(src, 'b2'), unit_C08m(src, r'Point3<S>'), unit_C08m(src, r'Point2<S>')], 'C05': lambda src, tier: [unit_conv(src, 'C05', 'Rad')], 'C07': lambda src, tier: [unit_conv(src, 'C07', 'Rad'), unit_conv(src, 'C07', 'Deg')], 'C06': lambda src, tier: [unit_C06(src, 'Rad'), unit_C06(src, 'Deg')], 'C13': lambda src, tier: [unit_C13(src, 'R')], 'C04': lambda src, tier: [unit_C04(src, 'R')], 'C02': lambda src, tier: [unit_C02(src, 'R'), unit_C02t(src)], 'C01': lambda src, tier: [unit_C01(src, 'R'), unit_C01t(src, 'R'), as_model_U(unit_C01(src, 'R'), 'C01u')], 'C03': build_C03, 'C12': lambda src, tier: [unit_C12(src, 'R'), as_model_U(unit_C12(src, 'R'), 'C12u')]}
import kani_driver
KANI = kani_driver.GROUPS
from meta import META

NOT_APPLICABLE = {}
