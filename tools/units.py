"""Unit definitions: which functions / specs / lemmas make up the Verus file(s) of each property."""
import os, sys
HERE = os.path.dirname(os.path.abspath(__file__))
sys.path.insert(0, HERE)
sys.path.insert(0, os.path.join(os.path.dirname(HERE), 'contracts'))
from emit import Unit, Sel
from sym import SpecLib
import c_vector
import c_point


def unit_C03(src, model='R'):
    u = Unit('C03', src, model)
    lib = SpecLib()
    F = c_vector.build(lib)
    u.spec_texts.append(lib.text())
    u.contract_fns.append(c_vector.contracts)
    c_vector.select_c03(u)
    if model == 'R':
        for L in c_vector.laws(F):
            pa, pb = L.render()
            u.lemma_texts.append(pa)
            u.poly_texts.append(pb)
    return u


def unit_C12(src, model='R'):
    u = Unit('C12', src, model)
    lib = SpecLib()
    F = c_vector.build(lib)
    c_point.build(lib, F)
    u.spec_texts.append(lib.text())
    u.contract_fns += [c_point.contracts, c_vector.contracts]
    c_vector.select_c03(u)
    c_point.select_c12(u)
    if model == 'R':
        for L in c_point.laws(F):
            pa, pb = L.render()
            u.lemma_texts.append(pa)
            u.poly_texts.append(pb)
    return u


def build_C03(src, tier):
    return [unit_C03(src, 'R')]


UNITS = {'C03': build_C03, 'C12': lambda src, tier: [unit_C12(src, 'R')]}
KANI = {}
META = {
    'C03': dict(min_obligations=350, trust=['A1', 'A2', 'A6'],
                undecided=['integer scalar types "where no overflow occurs": argued (polynomial identities with integer coefficients hold in Z), not machine-checked',
                           'iter::Sum is decided under C17 (bounded)']),
}

NOT_APPLICABLE = {}
