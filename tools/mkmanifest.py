#!/usr/bin/env python3
"""regenerate MANIFEST.json from tools/units.py (claimed properties) and properties.jsonl"""
import json, os, sys
ROOT = os.path.dirname(os.path.dirname(os.path.abspath(__file__)))
sys.path.insert(0, os.path.join(ROOT, 'tools')); sys.path.insert(0, os.path.join(ROOT, 'contracts'))
import units
props = [json.loads(l) for l in open(os.path.join(ROOT, 'properties.jsonl'))]
claimed = sorted(set(units.UNITS) | set(units.KANI))
checks = []
for p in props:
    pid = p['id']
    if pid not in claimed:
        continue
    m = units.META.get(pid, {})
    checks.append({
        'property_id': pid,
        'quick_cmd': './check %s --tier quick' % pid,
        'thorough_cmd': './check %s --tier thorough' % pid,
        'evidence_file': 'evidence/%s.json' % pid,
        'replay_cmd_template': './check %s --replay {path}' % pid,
        'engine': m.get('engine', 'verus'),
        'level_claimed': {'category': 'proof', 'text': m.get('level_text', 'Deductive proof (all inputs, no bound) of the contracts of the real functions, extracted mechanically from the macro expansion of /repo on every run, against spec functions taken from the property statement; law lemmas tie the spec functions to the algebraic clauses of the statement.'), 'design_ref': m.get('design_ref', 'DESIGN.md section 3 ' + pid)},
        'level_note': m.get('level_note', 'Assumes: ' + '; '.join(m.get('trust', ['A1', 'A2', 'A6'])) + ' (DESIGN.md section 4). Undecided clauses: ' + ('; '.join(m.get('undecided', [])) or 'none')),
        'technique': m.get('technique', 'contract-based deductive verification (Verus requires/ensures on mechanically extracted real functions + law lemmas)'),
    })
na = [{'property_id': p['id'], 'reason': units.NOT_APPLICABLE.get(p['id'], 'check not built yet (work in progress; will be claimed when its check lands)')} for p in props if p['id'] not in claimed]
man = {
    'version': 1,
    'setup_cmd': './setup.sh',
    'hooks': {'guard': 'cgmath_verif', 'enable': 'none needed: contracts live beside the code (mechanical extraction from the macro expansion); no hook commits in /repo', 'baseline_off_cmd': 'cd /repo && cargo test --workspace --no-fail-fast --offline', 'source_commits': [], 'add_only': True},
    'engines': [{'name': 'verus', 'path': 'tools/', 'serves_properties': [c for c in claimed if c in units.UNITS], 'kind_free_text': 'Verus 0.2026.09.13 on functions extracted from cargo rustc -Zunpretty=expanded of /repo'},
                {'name': 'kani', 'path': 'kani/', 'serves_properties': [c for c in claimed if c in units.KANI], 'kind_free_text': 'Kani 0.68 / CBMC 6.11 harness crate with a path dependency on /repo'}],
    'checks': checks,
    'not_applicable': na,
    'notes': 'exit 2 + UNDECIDED line = infrastructure problem (tree does not compile, lost anchor, solver limit): never a VIOLATION.',
}
json.dump(man, open(os.path.join(ROOT, 'MANIFEST.json'), 'w'), indent=1)
print('claimed', claimed)
