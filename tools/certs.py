#!/usr/bin/env python3-vt
"""Certificate author (sympy).  stdin: JSON request, stdout: JSON answer.

request: {"goals": [[astL, astR], ...], "hyps": [[astL, astR], ...]}
  ast: ["var", name] | ["lit", text] | ["op", op, a, b] | ["fn", name, [args]]
answer:  for each goal a certificate
  c * (L' - R') == sum_j K_j * (D_j * q_j - X_j) + sum_h K_h * (HL_h - HR_h)
where every division node X/D (and every fn node) of the goal/hyps has been replaced by a fresh symbol,
c is a product of powers of the denominators, and all K are polynomials (printed as Verus `real` expressions).
The certificate is only an *author's* hint: the identity is re-proved by Z3 on every run (pass B).
"""
import json
import sys
import itertools
import sympy
from sympy import Symbol, Rational, Poly, expand, S


class Ctx:
    def __init__(self):
        self.quot = {}    # key text -> (sym, X expr, D expr, key)
        self.fns = {}     # key text -> sym
        self.order = []   # quotient symbols in creation order (inner first)
        self.vars = {}

    def conv(self, a):
        k = a[0]
        if k == 'var':
            if a[1] not in self.vars:
                self.vars[a[1]] = Symbol(a[1])
            return self.vars[a[1]]
        if k == 'lit':
            return Rational(a[1])
        if k == 'op':
            x, y = self.conv(a[2]), self.conv(a[3])
            if a[1] == '+':
                return x + y
            if a[1] == '-':
                return x - y
            if a[1] == '*':
                return x * y
            if a[1] == '/':
                if y.is_Rational and y != 0:
                    return x / y
                key = json.dumps(a)
                if key not in self.quot:
                    s = Symbol('q%d_' % len(self.quot))
                    self.quot[key] = (s, x, y, a)
                    self.order.append(key)
                return self.quot[key][0]
            raise ValueError(a[1])
        if k == 'fn':
            key = json.dumps(a)
            if key not in self.fns:
                # convert args too so that nested quotients are registered (not needed for the atom itself)
                self.fns[key] = (Symbol('f%d_' % len(self.fns)), a)
            return self.fns[key][0]
        raise ValueError(k)


def to_verus(e):
    """print a sympy polynomial expression as a Verus real expression"""
    e = sympy.sympify(e)
    if e.is_Symbol:
        return str(e)
    if e.is_Integer:
        return '%dreal' % int(e) if e >= 0 else '(0real - %dreal)' % (-int(e))
    if e.is_Rational:
        p, q = int(e.p), int(e.q)
        num = '%dreal' % p if p >= 0 else '(0real - %dreal)' % (-p)
        return '(%s / %dreal)' % (num, q)
    if e.is_Add:
        return '(' + ' + '.join(to_verus(x) for x in e.args) + ')'
    if e.is_Mul:
        return '(' + ' * '.join(to_verus(x) for x in e.args) + ')'
    if e.is_Pow:
        b, n = e.args
        assert n.is_Integer and n > 0, e
        return '(' + ' * '.join([to_verus(b)] * int(n)) + ')'
    raise ValueError('cannot print %r' % (e,))


def ast_text(a):
    k = a[0]
    if k == 'var':
        return a[1]
    if k == 'lit':
        return a[1] + 'real'
    if k == 'op':
        return '(%s %s %s)' % (ast_text(a[2]), a[1], ast_text(a[3]))
    if k == 'fn':
        return '%s(%s)' % (a[1], ', '.join(ast_text(x) for x in a[2]))


def solve(req):
    ctx = Ctx()
    hyps = [(ctx.conv(l), ctx.conv(r)) for l, r in req.get('hyps', [])]
    goals = [(ctx.conv(l), ctx.conv(r)) for l, r in req['goals']]
    hpolys = [sympy.expand(l - r) for l, r in hyps]
    qkeys = list(ctx.order)
    qsyms = [ctx.quot[k][0] for k in qkeys]
    out = {'quotients': [], 'fns': [], 'goals': []}
    for k in qkeys:
        s, X, D, a = ctx.quot[k]
        out['quotients'].append({'sym': str(s), 'num': to_verus(X), 'den': to_verus(D),
                                 'num_text': ast_text(a[2]), 'den_text': ast_text(a[3]), 'text': ast_text(a)})
    for k, (s, a) in ctx.fns.items():
        out['fns'].append({'sym': str(s), 'text': ast_text(a)})
    for (l, r) in goals:
        f = sympy.expand(l - r)
        c = S.One
        cof = {}      # quotient sym -> cofactor
        # eliminate quotients outermost first (later-created ones may contain earlier ones inside X or D: they were created
        # after their sub-quotients, so go in reverse creation order)
        for k in reversed(qkeys):
            s, X, D, _ = ctx.quot[k]
            if not f.has(s):
                continue
            rj = sympy.expand(D * s - X)
            deg = sympy.degree(f, s)
            # D^deg * f = quo * rj + rem
            quo = sympy.pquo(f, rj, s)
            rem = sympy.prem(f, rj, s)
            mult = sympy.expand(D ** deg) if sympy.degree(rj, s) == 1 else None
            # check the pseudo-division identity (pquo/prem use LC(rj)^(deg - 1 + 1))
            lc = sympy.LC(rj, s)
            e = deg - sympy.degree(rj, s) + 1
            assert sympy.expand(lc ** e * f - quo * rj - rem) == 0
            # scale previous cofactors
            for kk in cof:
                cof[kk] = sympy.expand(cof[kk] * lc ** e)
            c = c * lc ** e
            cof[str(s)] = quo
            f = sympy.expand(rem)
        hc = [S.Zero] * len(hpolys)
        if f != 0:
            if not hpolys:
                return {'error': 'goal is not an identity: remainder %s' % str(f)[:300]}
            gens = sorted(f.free_symbols | set().union(*[h.free_symbols for h in hpolys]), key=str)
            done = False
            rem = f
            for order in ('grevlex', 'lex'):
                try:
                    Q, rem = sympy.reduced(f, hpolys, *gens, order=order)
                except Exception:
                    continue
                if rem == 0:
                    hc = Q
                    done = True
                    break
            if not done:
                # ideal membership with cofactors through sympy's module machinery (lifts the Groebner-basis reduction
                # back to the original generators)
                try:
                    from sympy import QQ
                    ring = QQ.old_poly_ring(*gens)
                    ideal = ring.ideal(*hpolys)
                    coeffs = ideal.in_terms_of_generators(f)
                    hc = [sympy.expand(ring.to_sympy(c)) if not isinstance(c, sympy.Basic) else c for c in coeffs]
                    done = True
                except Exception as e:
                    return {'error': 'no cofactors found (%s); remainder of division %s' % (repr(e)[:200], str(rem)[:300])}
        # final check of the certificate
        lhs = sympy.expand(c * sympy.expand(l - r))
        rhs = sum(cof[str(ctx.quot[k][0])] * sympy.expand(ctx.quot[k][2] * ctx.quot[k][0] - ctx.quot[k][1]) for k in qkeys if str(ctx.quot[k][0]) in cof)
        rhs = rhs + sum(q * h for q, h in zip(hc, hpolys))
        assert sympy.expand(lhs - rhs) == 0
        out['goals'].append({
            'c': to_verus(sympy.factor(c)) if c != 1 else '1real',
            'c_factors': [[to_verus(b), int(e)] for b, e in sympy.factor_list(c)[1]] if c != 1 else [],
            'c_const': to_verus(sympy.factor_list(c)[0]) if c != 1 else '1real',
            'diff': to_verus(sympy.expand(l) - sympy.expand(r)) if False else None,
            'qcof': {s: to_verus(v) for s, v in cof.items()},
            'hcof': [to_verus(q) for q in hc],
        })
    out['vars'] = sorted(ctx.vars)
    return out


if __name__ == '__main__':
    req = json.load(sys.stdin)
    try:
        ans = solve(req)
    except Exception as e:
        import traceback
        ans = {'error': traceback.format_exc()[-800:]}
    json.dump(ans, sys.stdout)
