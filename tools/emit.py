"""Emit one Verus file for a unit: prelude + types + traits + spec library +
the real functions (bodies verbatim) wrapped in their contracts + lemmas."""
import os
import re
import sys
from dataclasses import dataclass, field
from typing import List, Optional, Callable

from rsparse import Fn, Impl, Trait, Other, Assoc, norm
from extract import Source, ExtractError, OP_TRAITS, split_top, impl_generics, subst_text

HERE = os.path.dirname(os.path.abspath(__file__))
ROOT = os.path.dirname(HERE)


@dataclass
class Contract:
    requires: List[str] = field(default_factory=list)
    ensures: List[str] = field(default_factory=list)
    ret: str = 'ret'
    pre: str = ''          # proof text inserted at the start of the body
    tail: str = ''         # proof text inserted before the tail expression
    spec: Optional[str] = None   # operator impls: spec expression in terms of `self` and `rhs`
    closures: dict = field(default_factory=dict)   # ordinal -> (params, ret, requires, ensures)
    tags: tuple = ()       # e.g. ('identity',)
    variant: str = ''      # '' | 'returns-only-if'
    no_body_check: bool = False


@dataclass
class Sel:
    """selector of impls / functions for a unit."""
    trait: Optional[str]            # trait name without generics, None = inherent, '*' any
    selfty: str                      # regex on the impl self type (normalised text)
    methods: Optional[List[str]] = None     # None = all
    trait_args: Optional[str] = None  # regex on the trait generics text
    generics: Optional[str] = None   # regex on impl generics


def trait_name(tr: Optional[str]):
    if tr is None:
        return None
    m = re.match(r'(?:::)?(?:[A-Za-z_0-9]+\s*::\s*)*([A-Za-z_][A-Za-z0-9_]*)', tr.strip())
    if not m:
        return tr
    return m.group(1)


def trait_args(tr: Optional[str]):
    if tr is None or '<' not in tr:
        return ''
    return tr[tr.index('<') + 1:tr.rindex('>')]


CANARY_PRELUDE = ('canary_prelude_axioms', '''pub proof fn canary_prelude_axioms()
    ensures false
{
    ax_pi(); ax_trig_values(); ax_pythagoras(0real); ax_pythagoras(r_pi() / 2real); ax_sin_nonneg(0real); ax_atan2_nonneg(0real, 1real); ax_cos_nonneg(0real);
    ax_sin_add(0real, r_pi() / 2real); ax_cos_add(0real, r_pi() / 2real); ax_sin_neg(0real); ax_cos_neg(0real);
    ax_sqrt(0real); ax_sqrt(4real); ax_fmod(7real, 2real); ax_fmod(0real - 7real, 2real); ax_tan(0real);
    ax_asin(0real); ax_asin(1real); ax_acos(1real); ax_acos(0real); ax_atan(0real);
    ax_atan2(0real, 1real); ax_atan2(1real, 0real); ax_atan2(0real, 0real - 1real);
    ax_approx_refl(s_zero()); ax_approx_refl(s_one()); ax_approx_zero_sep(s_one());
}
''')


class Unit:
    def __init__(self, name, src: Source, model='R', subst=None):
        self.name = name
        self.src = src
        self.model = model
        self.subst = {'S': 'Sc'}
        if subst:
            self.subst.update(subst)
        self.sels: List[Sel] = []
        self.contract_fns: List[Callable] = []   # (im, fn, unit) -> Contract|None
        self.spec_texts: List[str] = []
        self.lemma_texts: List[str] = []
        self.poly_texts: List[str] = []
        self.extra_prelude: List[str] = []
        self.trait_methods = {}     # trait name -> set of methods emitted
        self.table = []             # (line_lo, line_hi, obligation, origin, kind)
        self.inliner = None
        self.ac_broadcast = True
        self.close_exclude = None
        self.functions = []         # dicts for evidence
        self.assumed = []           # contracts assumed here, proved in another unit
        self.skipped = []           # (anchor, reason)
        self.struct_names = None    # None = all
        self.drop_traits = set()
        self.free_fns = []          # (module, name)
        self.canaries = [CANARY_PRELUDE] if model == 'R' else []
        self.scoped_subst = []      # [(pred(im), dict)]: substitutions that apply to particular impls only (rule R4)
        self.assoc_fix = {}         # textual fixes of associated-type paths after substitution (rule R4)
        self.hint_packs = []        # (pred(im, f), poly_texts, lemma_texts): proof hints needed when a matching function is verified with its body
        self.close_over_callees = True   # verify with bodies every function the owned functions (transitively) call
        self.assume_pred = None     # (im, f) -> True: emit the contract only (external_body); proved in its home unit
        self.trait_extras = {}      # trait -> dict(decl_items, requires{method: [..]}, impl_items(im) -> text)

    # ------------------------------------------------------------------
    # ------------------------------------------------------------------ callee closure
    FIELD_TYPES = {'Matrix2': ['Vector2'], 'Matrix3': ['Vector3'], 'Matrix4': ['Vector4', 'Vector3'],
                   'Quaternion': ['Vector3'], 'Basis2': ['Matrix2', 'Vector2'], 'Basis3': ['Matrix3', 'Vector3', 'Quaternion'],
                   'Point1': ['Vector1'], 'Point2': ['Vector2'], 'Point3': ['Vector3', 'Vector4'],
                   'Vector2': [], 'Vector3': [], 'Vector4': ['Vector3'],
                   'Euler': ['Rad', 'Deg'], 'Deg': ['Rad'], 'Rad': ['Deg'],
                   'Decomposed': ['Vector3', 'Vector2', 'Quaternion', 'Basis2', 'Basis3', 'Point2', 'Point3', 'Matrix3', 'Matrix4'],
                   'PerspectiveFov': ['Perspective', 'Rad', 'Matrix4'], 'Perspective': ['Matrix4'], 'Ortho': ['Matrix4'], 'PlanarFov': ['Matrix4', 'Rad']}
    OPS = [(r'\+=', 'add_assign'), (r'-=', 'sub_assign'), (r'\*=', 'mul_assign'), (r'/=', 'div_assign'), (r'%=', 'rem_assign'),
           (r'(?<![+\-*/%=<>!&|])\+(?!=)', 'add'), (r'(?<![+\-*/%=<>!&|(,])-(?![=>])', 'sub'), (r'(?<=[(,=\s])-(?=[A-Za-z_(])', 'neg'),
           (r'(?<![+\-*/%=<>!&|(,])\*(?!=)', 'mul'), (r'(?<![+\-*/%=<>!&|/])/(?![=/*])', 'div'), (r'(?<![+\-*/%=<>!&|])%(?!=)', 'rem'),
           (r'==|!=', 'eq'), (r'(?<![-=<>])[<>]=?(?![<>=])', 'partial_cmp')]

    def _names_and_scope(self, im, f):
        src = self.src
        if f.body is None:
            return set(), set()
        body = src.p.text(f.body[0], f.body[1])
        sig = src.p.text(f.sig[0], f.sig[1])
        names = set(re.findall(r'([a-z_][a-z0-9_]*)\s*(?:::<[^>]*>)?\s*\(', body))
        for rx, nm in self.OPS:
            if re.search(rx, body):
                names.add(nm)
        if '.into()' in body or 'from(' in body or 'From::' in body:
            names.add('from')
        if '.clone()' in body:
            names.add('clone')
        text = (im.header if im is not None else '') + ' ' + sig + ' ' + body
        scope = set(t for t in re.findall(r'\b([A-Z][A-Za-z0-9]*)\b', text) if t in src.structs)
        if re.search(r'\bA\b', text):
            scope |= {'Rad', 'Deg'}
        if re.search(r'\b[PR]\b', text) and 'Decomposed' in text:
            scope |= {'Point2', 'Point3', 'Quaternion', 'Basis2', 'Basis3'}
        ft = dict(self.FIELD_TYPES)
        ft.update(getattr(self, 'field_types_override', {}))
        for t in list(scope):          # one level only: the types a value of a mentioned type directly contains / converts to
            scope |= set(ft.get(t, []))
        return names, scope

    def _close(self, chosen):
        """own set := functions for which assume_pred is False, closed under (syntactic, type-scoped) callees"""
        src = self.src
        nodes = []      # (im, f)
        for im, ms in chosen:
            tn = trait_name(im.trait)
            fns = [x for x in im.items if isinstance(x, Fn)]
            have = set(x.name for x in fns)
            for f in fns:
                if ms is None or f.name in ms:
                    nodes.append((im, f))
            if tn in src.traits:
                for f in src.traits[tn].items:
                    if isinstance(f, Fn) and f.body is not None and f.name not in have and (ms is None or f.name in ms):
                        nodes.append((im, f))
        for key in self.free_fns:
            nodes.append((None, src.free_fns[key]))
        own = set()
        for im, f in nodes:
            if not self.assume_pred(im, f):
                own.add((id(im), f.name, id(f)))
        info = {}
        by_name = {}
        for im, f in nodes:
            st = re.match(r"&?\s*(?:'[a-z]+\s+)?(?:mut\s+)?([A-Za-z_][A-Za-z0-9_]*)", im.selfty).group(1) if im is not None else None
            by_name.setdefault(f.name, []).append((im, f, st))
        work = [(im, f) for im, f in nodes if (id(im), f.name, id(f)) in own]
        while work:
            im, f = work.pop()
            names, scope = self._names_and_scope(im, f)
            for nm in names:
                for (im2, f2, st2) in by_name.get(nm, []):
                    k = (id(im2), f2.name, id(f2))
                    if k in own:
                        continue
                    if st2 is not None and st2 not in scope:
                        continue
                    if self.close_exclude is not None and self.close_exclude(im2, f2):
                        continue
                    if im2 is not None and im2.trait and trait_args(im2.trait):
                        # operator / From impls: the argument type must be in scope too (or be the scalar)
                        ta = re.match(r"&?\s*(?:'[a-z]+\s+)?(?:mut\s+)?([A-Za-z_][A-Za-z0-9_]*)", trait_args(im2.trait).strip())
                        tb = ta.group(1) if ta else None
                        if tb is not None and tb in src.structs and tb not in scope:
                            continue
                    own.add(k)
                    work.append((im2, f2))
        self.closure_added = len(own)
        self.assume_pred = lambda im, f, own=own: (id(im), f.name, id(f)) not in own
        self._include_hint_packs([(im, f) for im, f in nodes if (id(im), f.name, id(f)) in own])

    def _include_hint_packs(self, verified):
        for pred, polys, lemmas in self.hint_packs:
            if any(pred(im, f) for im, f in verified):
                for t in polys:
                    if t not in self.poly_texts:
                        self.poly_texts.append(t)
                for t in lemmas:
                    if t not in self.lemma_texts:
                        self.lemma_texts.append(t)

    def is_crate_trait(self, name):
        return name in self.src.traits and name not in ('BaseNum', 'BaseFloat') and name not in self.drop_traits

    def select(self, *sels):
        self.sels.extend(sels)

    def selected_methods(self, im: Impl):
        tn = trait_name(im.trait)
        res = None
        for s in self.sels:
            if s.trait == '*' or s.trait == tn:
                if not re.fullmatch(s.selfty, im.selfty):
                    continue
                if s.trait_args is not None and not re.fullmatch(s.trait_args, trait_args(im.trait)):
                    continue
                if s.generics is not None and not re.fullmatch(s.generics, im.generics):
                    continue
                if s.methods is None:
                    return None, True
                res = (res or set()) | set(s.methods)
        if res is None:
            return None, False
        return res, True

    def contract(self, im, f):
        for cf in self.contract_fns:
            c = cf(self, im, f)
            if c is not None:
                return c
        return None

    # ------------------------------------------------------------------
    def emit(self):
        src = self.src
        out = []
        lines = [0]

        def add(text):
            out.append(text)
            lines[0] += text.count('\n')

        def cur_line():
            return lines[0] + 1

        if self.model == 'U':
            prelude = derive_prelude_U(open(os.path.join(ROOT, 'contracts', 'prelude_R.rs')).read())
        else:
            prelude = open(os.path.join(ROOT, 'contracts', 'prelude_%s.rs' % self.model)).read()
        add(prelude)
        if not prelude.endswith('\n'):
            add('\n')
        for e in self.extra_prelude:
            add(e + '\n')
        add('verus! {\n')
        # ---- types
        add('// ---- types (verbatim from the expansion)\n')
        for name, it in src.structs.items():
            if self.struct_names is not None and name not in self.struct_names:
                continue
            lo, hi = it.toks
            # skip attributes: find 'struct' keyword
            t = src.p.toks
            k = lo
            while t[k].text != 'struct':
                k += 1
            stxt = src.render(k, hi, {})
            # rule R15: private fields (Basis2/Basis3 `mat`) are made `pub` so that contracts may mention them
            stxt = re.sub(r'(?m)^(\s*)(?!pub\b)([a-z_][a-z0-9_]*\s*:)', r'\1pub \2', stxt)
            add('pub ' + stxt + '\n')
        # ---- collect impls
        chosen = []
        for im in src.impls:
            ms, ok = self.selected_methods(im)
            if not ok:
                continue
            chosen.append((im, ms))
        if self.assume_pred is not None and self.close_over_callees:
            self._close(chosen)
        elif self.hint_packs:
            allfns = [(im, f) for im, ms in chosen for f in im.items if isinstance(f, Fn)] + [(None, self.src.free_fns[k]) for k in self.free_fns]
            self._include_hint_packs(allfns)
        # trait method sets
        used_traits = {}
        for im, ms in chosen:
            tn = trait_name(im.trait)
            if tn is None or tn in OP_TRAITS or tn in self.drop_traits:
                continue
            if tn not in src.traits:
                continue   # external trait: declared in the prelude
            tr = src.traits[tn]
            avail = [x.name for x in tr.items if isinstance(x, Fn)]
            want = set(avail) if ms is None else set(ms)
            used_traits.setdefault(tn, set())
            used_traits[tn] |= (want & set(avail))
        changed = True
        while changed:
            changed = False
            for tn in list(used_traits):
                for bn in [trait_name(b) for b in self.trait_supers(src.traits[tn])] + self.trait_generic_bound_traits(src.traits[tn]):
                    if bn not in used_traits:
                        used_traits[bn] = set()
                        changed = True
        add('// ---- trait declarations (signatures from the expansion; bounds, where clauses and default bodies dropped: rule R2)\n')
        for tn, methods in used_traits.items():
            add(self.emit_trait(src.traits[tn], methods))
        self.trait_methods = used_traits
        add('// ---- spec library\n')
        for s in self.spec_texts:
            add(s)
            if not s.endswith('\n'):
                add('\n')
        add('// ---- functions under contract (bodies verbatim from the expansion)\n')
        for im, ms in chosen:
            text = self.emit_impl(im, ms, used_traits, cur_line())
            add(text)
        for (mod, name) in self.free_fns:
            f = src.free_fns[(mod, name)]
            add(self.emit_fn(None, f, cur_line(), indent=''))
        # shape laws a hint calls (`law_<name>(..)`) travel with the function: taken from the registry of rendered laws
        import sym as _sym
        body_text_so_far = ''.join(out)
        have = ''.join(self.lemma_texts)
        for nm in ([] if getattr(self, 'no_hints', False) else sorted(set(re.findall(r'(?<![A-Za-z0-9_])law_([A-Za-z0-9_]+)\(', body_text_so_far)))):
            if ('proof fn law_%s(' % nm) in have:
                continue
            if nm in _sym.LAW_REGISTRY:
                pa, pb = _sym.LAW_REGISTRY[nm]
                self.lemma_texts.append(pa)
                if pb not in self.poly_texts:
                    self.poly_texts.append(pb)
        add('// ---- law lemmas (pass A)\n')
        for s in self.lemma_texts:
            lo = cur_line()
            add(s)
            if not s.endswith('\n'):
                add('\n')
            self.table.append((lo, cur_line() - 1, None, 'lemmas', 'lemma'))
        add('// ---- vacuity canaries: each of these must FAIL (contradictory assumptions would make it pass)\n')
        for cname, ctext in self.canaries:
            lo = cur_line()
            add(ctext)
            if not ctext.endswith('\n'):
                add('\n')
            self.table.append((lo, cur_line() - 1, cname, 'canary', 'canary'))
        add('// ---- polynomial identities (pass B)\npub mod poly {\nuse super::*;\n')
        for s in self.poly_texts:
            lo = cur_line()
            add(s)
            if not s.endswith('\n'):
                add('\n')
            self.table.append((lo, cur_line() - 1, None, 'poly', 'lemma'))
        add('}\n')
        add('} // verus!\nfn main() {}\n')
        text = ''.join(out)
        from rules import literal_block
        lb = literal_block(text)
        if lb:
            marker = '// ---- types (verbatim from the expansion)'
            i = text.index(marker)
            i = text.rfind('verus! {', 0, i)
            text = text[:i] + lb + text[i:]
            shift = lb.count('\n')
            self.table = [(lo + shift, hi + shift, n, o, k) for (lo, hi, n, o, k) in self.table]
        return text

    # ------------------------------------------------------------------
    def strip_generic_bounds(self, g):
        """'<P: EuclideanSpace + Foo, Rhs = Self>' -> '<P: EuclideanSpace, Rhs = Self>' (only crate-trait bounds are kept)"""
        if not g:
            return ''
        inner = g.strip()[1:-1]
        keep = []
        for x in split_top(inner):
            default = ''
            if '=' in x and not re.search(r'<[^>]*=', x.split('=')[0]):
                x, default = x.split('=', 1)
                default = ' = ' + default.strip()
            nm = x.split(':')[0].strip()
            if nm in self.subst:
                continue
            bounds = []
            if ':' in x:
                for b in split_top(x.split(':', 1)[1], '+'):
                    if self.is_crate_trait(trait_name(b.strip())):
                        bounds.append(subst_text(b.strip(), self.subst))
            keep.append(nm + (': ' + ' + '.join(bounds) if bounds else '') + default)
        return '<' + ', '.join(keep) + '>' if keep else ''

    def trait_generic_bound_traits(self, tr: Trait):
        src = self.src
        t = src.p.toks
        lo, hi = tr.header_toks
        i = lo + 2
        out = []
        for it in tr.items:
            if isinstance(it, Assoc) and it.kind == 'type':
                txt = norm(src.p.text(it.toks[0], it.toks[1])).rstrip(';')
                if ':' in txt:
                    for b in split_top(txt.split(':', 1)[1], '+'):
                        if self.is_crate_trait(trait_name(b.strip())):
                            out.append(trait_name(b.strip()))
        if t[i].text == '<':
            j = src.p._skip_angle(i, hi)
            g = norm(src.p.text(i, j))
            for x in split_top(g.strip()[1:-1]):
                if ':' in x:
                    for b in split_top(x.split('=')[0].split(':', 1)[1], '+'):
                        if self.is_crate_trait(trait_name(b.strip())):
                            out.append(trait_name(b.strip()))
        return out

    def trait_supers(self, tr: Trait):
        """crate-trait bounds on Self (supertraits and `where Self: ..` clauses); everything else is dropped"""
        src = self.src
        t = src.p.toks
        lo, hi = tr.header_toks
        i = lo + 2
        if t[i].text == '<':
            i = src.p._skip_angle(i, hi)
        text = norm(src.p.text(i, hi)) if i < hi else ''
        bounds = []
        if text.startswith(':'):
            head = text[1:]
            w = re.search(r'\bwhere\b', head)
            sup = head[:w.start()] if w else head
            bounds += split_top(sup, '+')
            text = head[w.start():] if w else ''
        if text.startswith('where'):
            for cl in split_top(text[5:]):
                if ':' not in cl:
                    continue
                lhs, rhs = cl.split(':', 1)
                if lhs.strip() == 'Self':
                    bounds += split_top(rhs, '+')
        keep = []
        for b in bounds:
            b = b.strip()
            if self.is_crate_trait(trait_name(b)):
                keep.append(subst_text(b, self.subst))
        return keep

    def emit_trait(self, tr: Trait, methods):
        src = self.src
        t = src.p.toks
        lo, hi = tr.header_toks
        i = lo + 2
        g = ''
        if t[i].text == '<':
            j = src.p._skip_angle(i, hi)
            g = norm(src.p.text(i, j))
        sup = ['Sized'] + self.trait_supers(tr)
        head = 'pub trait %s%s: %s {\n' % (tr.name, self.strip_generic_bounds(g), ' + '.join(sup))
        body = []
        ex = self.trait_extras.get(tr.name, {})
        if ex.get('decl_items'):
            body.append('    ' + ex['decl_items'] + '\n')
        for it in tr.items:
            if isinstance(it, Assoc) and it.kind == 'type':
                txt = norm(src.p.text(it.toks[0], it.toks[1])).rstrip(';')
                bounds = []
                if ':' in txt:
                    for b in split_top(txt.split(':', 1)[1], '+'):
                        # a bound on the trait itself (Matrix::Transpose: Matrix<..>) is a definitional cycle for Verus: dropped
                        if self.is_crate_trait(trait_name(b.strip())) and trait_name(b.strip()) != tr.name:
                            bounds.append(subst_text(b.strip(), self.subst))
                body.append('    type %s%s;\n' % (it.name, (': ' + ' + '.join(bounds)) if bounds else ''))
            elif isinstance(it, Fn) and it.name in methods:
                req = ex.get('requires', {}).get(it.name)
                decl = self.fn_decl(it, None)
                if req:
                    names = self.param_names(it)
                    req = [re.sub(r'\$([0-9]+)', lambda m: names[int(m.group(1))], r) for r in req]
                    decl += '\n        requires ' + ', '.join(req)
                body.append('    ' + decl + ';\n')
        return head + ''.join(body) + '}\n'

    def fn_decl(self, f: Fn, c: Optional[Contract], ret_name=None):
        """signature text with generics filtered through subst and where clauses dropped."""
        src = self.src
        name, generics, params, ret, where = src.fn_sig_parts(f, {})
        # filter generics (on the raw text), then substitute
        gs = []
        if generics:
            for g in split_top(generics):
                nm = g.split(':')[0].strip()
                if nm in self.subst:
                    continue
                gs.append(subst_text(g, self.subst))
        params = [subst_text(p, self.subst) for p in params]
        params = [re.sub(r'^mut\s+', '', p) if False else p for p in params]
        s = 'fn %s%s(%s)' % (name, '<' + ', '.join(gs) + '>' if gs else '', ', '.join(params))
        if ret is not None:
            ret = subst_text(ret, self.subst)
            if ret_name:
                s += ' -> (%s: %s)' % (ret_name, ret)
            else:
                s += ' -> ' + ret
        if where:
            # keep only where-clauses on remaining fn generics (e.g. F: FnMut)
            ws = []
            for w in split_top(where):
                nm = w.split(':')[0].strip()
                if any(nm == g.split(':')[0].strip() for g in gs):
                    ws.append(subst_text(w, self.subst))
            if ws:
                s += ' where ' + ', '.join(ws)
        return s

    def impl_header(self, im: Impl):
        g = impl_generics(im, self.subst)
        g = subst_text(g, self.subst)
        tr = subst_text(im.trait, self.subst) if im.trait else None
        st = subst_text(im.selfty, self.subst)
        if tr:
            return self.fix_assoc('impl%s %s for %s' % (g, tr, st))
        return self.fix_assoc('impl%s %s' % (g, st))

    def emit_impl(self, im: Impl, ms, used_traits, line0):
        saved = self.subst
        extra = {}
        for pred, d in self.scoped_subst:
            if pred(im):
                extra.update(d)
        if extra:
            self.subst = dict(saved, **extra)
        try:
            return self._emit_impl(im, ms, used_traits, line0)
        finally:
            self.subst = saved

    def _emit_impl(self, im: Impl, ms, used_traits, line0):
        src = self.src
        tn = trait_name(im.trait)
        out = []
        nl = [line0]

        def add(text):
            out.append(text)
            nl[0] += text.count('\n')
        header = self.impl_header(im)
        fns = [x for x in im.items if isinstance(x, Fn)]
        if tn in src.traits and tn not in OP_TRAITS:
            want = used_traits.get(tn, set())
        elif ms is None:
            want = set(f.name for f in fns)
        else:
            want = set(ms)
        emitted = []
        have = set()
        body_parts = []
        # associated types / consts
        for it in im.items:
            if isinstance(it, Assoc):
                body_parts.append(('assoc', '    ' + self.fix_assoc(norm(src.render(it.toks[0], it.toks[1], self.subst))) + '\n'))
        todo = []
        for f in fns:
            if f.name in want:
                todo.append((f, False))
                have.add(f.name)
        # R2: copy defaults
        if tn in src.traits:
            tr = src.traits[tn]
            for f in tr.items:
                if isinstance(f, Fn) and f.name in want and f.name not in have:
                    if f.body is None:
                        raise ExtractError('impl %s lacks required method %s' % (im.header, f.name))
                    todo.append((f, True))
        spec_impl = ''
        fn_texts = []
        for f, is_default in todo:
            c = self.contract(im, f)
            if c is None:
                raise ExtractError('un-contracted function in unit %s: %s :: %s' % (self.name, im.header, f.name))
            if tn in OP_TRAITS and c.spec is not None:
                spec_impl = self.fix_assoc(self.spec_impl(im, f, c))
            if tn == 'From' and f.name == 'from':
                g = subst_text(impl_generics(im, self.subst), self.subst)
                st = subst_text(im.selfty, self.subst)
                src_ty = subst_text(trait_args(im.trait), self.subst)
                spec_impl = self.fix_assoc(('impl%s FromSpecImpl<%s> for %s {\n    open spec fn obeys_from_spec() -> bool { %s }\n'
                             '    open spec fn from_spec(v: %s) -> %s { %s }\n}\n') % (
                                 g, src_ty, st, 'true' if c.spec is not None else 'false', src_ty, st, c.spec if c.spec is not None else 'arbitrary()'))
            if tn == 'PartialOrd' and f.name == 'partial_cmp' and c.spec is not None:
                g = subst_text(impl_generics(im, self.subst), self.subst)
                st = subst_text(im.selfty, self.subst)
                rhs = subst_text(trait_args(im.trait), self.subst) or st
                spec_impl = ('impl%s PartialOrdSpecImpl%s for %s {\n    open spec fn obeys_partial_cmp_spec() -> bool { true }\n'
                             '    open spec fn partial_cmp_spec(&self, rhs: &%s) -> Option<Ordering> { %s }\n}\n') % (
                                 g, '<' + rhs + '>' if trait_args(im.trait) else '', st, rhs, c.spec)
            if tn == 'PartialEq' and f.name == 'eq' and c.spec is not None:
                g = subst_text(impl_generics(im, self.subst), self.subst)
                st = subst_text(im.selfty, self.subst)
                rhs = subst_text(trait_args(im.trait), self.subst) or st
                spec_impl = ('impl%s PartialEqSpecImpl%s for %s {\n    open spec fn obeys_eq_spec() -> bool { true }\n'
                             '    open spec fn eq_spec(&self, rhs: &%s) -> bool { %s }\n}\n') % (
                                 g, '<' + rhs + '>' if trait_args(im.trait) else '', st, rhs, c.spec)
            fn_texts.append((f, c, is_default))
        if not fn_texts and not body_parts and tn != 'Copy':
            return ''
        add(spec_impl)
        add(header + ' {\n')
        for kind, text in body_parts:
            add(text)
        ex = self.trait_extras.get(tn, {})
        if ex.get('impl_items'):
            add('    ' + ex['impl_items'](im) + '\n')
        for f, c, is_default in fn_texts:
            if is_default and tn in src.traits and trait_args(im.trait):
                # rule R2: a copied default mentions the trait's generic parameters; bind them to the impl's trait arguments
                tr = src.traits[tn]
                t = src.p.toks
                lo, hi = tr.header_toks
                names = []
                if t[lo + 2].text == '<':
                    j = src.p._skip_angle(lo + 2, hi)
                    for g in split_top(norm(src.p.text(lo + 3, j - 1))):
                        names.append(g.split(':')[0].split('=')[0].strip())
                args = [subst_text(a, self.subst) for a in split_top(trait_args(im.trait))]
                saved2 = self.subst
                self.subst = dict(saved2, **dict(zip(names, args)))
                try:
                    txt = self.emit_fn(im, f, nl[0], c=c, is_default=is_default)
                finally:
                    self.subst = saved2
                txt = re.sub(r'(?<![A-Za-z_])(Point[123]<Sc>)::(Diff|Scalar)', r'<\1 as EuclideanSpace>::\2', txt)
                add(txt)
            else:
                add(self.emit_fn(im, f, nl[0], c=c, is_default=is_default))
        add('}\n')
        return ''.join(out)

    def param_names(self, f: Fn):
        _, _, params, _, _ = self.src.fn_sig_parts(f, {})
        names = []
        for p in params:
            p = p.strip()
            if re.fullmatch(r"&?\s*('[a-z_]+\s+)?(mut\s+)?self", p):
                names.append('self')
            else:
                m = re.match(r'(?:mut\s+)?([A-Za-z_][A-Za-z0-9_]*)\s*:', p)
                names.append(m.group(1) if m else '_')
        return names

    def bind_params(self, c: Contract, f: Fn):
        """replace positional placeholders $0, $1 .. by the real parameter names of the signature"""
        import copy
        names = self.param_names(f)

        def sub(t):
            def r(m):
                k = int(m.group(1))
                if k >= len(names):
                    raise ExtractError('contract of %s refers to parameter $%d but the signature has %d' % (f.name, k, len(names)))
                return names[k]
            return re.sub(r'\$([0-9]+)', r, t)
        c2 = copy.copy(c)
        c2.requires = [sub(x) for x in c.requires]
        c2.ensures = [sub(x) for x in c.ensures]
        c2.pre = sub(c.pre)
        c2.tail = sub(c.tail)
        return c2

    def fix_assoc(self, text):
        """`A::Unitless` after the substitution of A (rule R3): the scalar type"""
        if 'A' in self.subst:
            text = text.replace(self.subst['A'] + '::Unitless', 'Sc')
        for k, v in self.assoc_fix.items():
            text = text.replace(k, v)
        return text

    def obligation_name(self, im, f):
        if im is None:
            return '%s::%s' % (f.module, f.name)
        return '%s::<%s>::%s' % (im.module, im.header, f.name)

    def emit_fn(self, im, f: Fn, line0, c=None, indent='    ', is_default=False):
        src = self.src
        if c is None:
            c = self.contract(im, f)
            if c is None:
                raise ExtractError('un-contracted function: %s' % self.obligation_name(im, f))
        quals = [q for q in f.quals if q in ('pub',)]
        c = self.bind_params(c, f)
        sig = self.fn_decl(f, c, ret_name=c.ret)
        assumed = bool(self.assume_pred and self.assume_pred(im, f))
        if assumed:
            body = '{ unimplemented!() }'
        else:
            body = src.body_text(f, self.subst)
            if self.inliner is None:
                from inline import Inliner
                self.inliner = Inliner(self)
            body = self.inliner.run(im, f, body)
            body = self.rewrite_body(body, c, f)
        spec = ''
        if c.requires:
            spec += '\n' + indent + '    requires ' + ', '.join(c.requires) + ','
        if c.ensures:
            spec += '\n' + indent + '    ensures ' + ', '.join(c.ensures) + ','
        mark = (indent + '#[verifier::external_body] // ASSUMED-CONTRACT: proved in the unit that owns this function\n') if assumed else ''
        text = mark + indent + ' '.join(quals + [sig]) + spec + '\n' + indent + body + '\n'
        text = self.fix_assoc(text)
        if c.requires and not assumed:
            # vacuity canary: a twin lemma with the same precondition and `ensures false` must FAIL
            _n, _g, _ps, _r, _w = src.fn_sig_parts(f, {})
            ps = []
            for prm in _ps:
                prm = prm.strip()
                if re.fullmatch(r"&?\s*('[a-z_]+\s+)?(mut\s+)?self", prm):
                    st = subst_text(im.selfty, self.subst) if im is not None else 'Self'
                    ps.append('self_: %s%s' % ('&' if prm.startswith('&') else '', re.sub(r"^&\s*('[a-z_]+\s+)?", '', st)))
                else:
                    ps.append(re.sub(r'^mut\s+', '', subst_text(re.sub(r"'[a-z_]+\s+", '', prm), self.subst)))
            cname = 'canary_pre_%d' % len(self.canaries)
            ctext = 'pub proof fn %s(%s)\n    requires %s\n    ensures false\n{}\n' % (
                cname, ', '.join(ps), ', '.join(re.sub(r'\bself\b', 'self_', r) for r in c.requires))
            self.canaries.append((cname + ' (precondition of %s)' % self.obligation_name(im, f), self.fix_assoc(ctext)))
        lo = line0
        hi = line0 + text.count('\n') - 1
        name = self.obligation_name(im, f)
        origin = 'src/%s.rs' % f.module.split('::')[0]
        if is_default:
            origin = 'src/%s.rs (trait default copied into impl, rule R2)' % f.module
        self.table.append((lo, hi, name, origin, 'assumed' if assumed else 'fn'))
        _nm, _g, _params, _ret, _w = src.fn_sig_parts(f, {})
        siginfo = {'fn': f.name, 'params': _params, 'ret': _ret, 'module': f.module, 'is_default': is_default,
                   'impl_header': im.header if im is not None else None, 'trait': im.trait if im is not None else None,
                   'selfty': im.selfty if im is not None else None}
        (self.assumed if assumed else self.functions).append({'anchor': name, 'sig': siginfo, 'origin': origin, 'body_sha256_16': src.body_hash(f),
                               'expansion_line': src.line_of(f.sig[0]),
                               'requires': c.requires, 'ensures': c.ensures, 'tags': list(c.tags),
                               'branch_free': (not assumed) and not re.search(r'(?<![A-Za-z0-9_])(if|match|while|for|loop|return)(?![A-Za-z0-9_])|\?|&&|\|\|', re.sub(r'proof \{.*?\}\n', '', body, flags=re.S))})
        return text

    # ------------------------------------------------------------------
    def rewrite_body(self, body, c: Contract, f: Fn):
        from rules import apply_body_rules
        body = apply_body_rules(body, self, c, f)
        # rule R3: a parameter of the generic angle type `A: Into<Rad<S>>` is converted with an explicit target type
        if 'A' in self.subst:
            _, _, params, _, _ = self.src.fn_sig_parts(f, {})
            for prm in params:
                m = re.fullmatch(r'(?:mut\s+)?([A-Za-z_][A-Za-z0-9_]*)\s*:\s*(A|Euler<A>)', prm.strip())
                if m and m.group(2) == 'A':
                    body = re.sub(r'\b%s\.into\(\)' % m.group(1), '<%s as Into<Rad<Sc>>>::into(%s)' % (self.subst['A'], m.group(1)), body)
                elif m:
                    body = re.sub(r'\b(%s\.[xyz])\.into\(\)' % m.group(1), r'<%s as Into<Rad<Sc>>>::into(\1)' % self.subst['A'], body)
        if c.closures:
            body = annotate_closures(body, c.closures, f)
        pre = c.pre if not getattr(self, 'no_hints', False) else ''
        if self.model == 'R' and self.ac_broadcast:
            # proof aid (not a rewrite of the code): commutativity of the model scalar's + and * is made available by
            # trigger, so that swapping the operands of a product or a sum in /repo does not break a proof
            pre = 'broadcast use {s_mul_comm, s_add_comm}; ' + (pre or '')
        if pre:
            i = body.index('{')
            body = body[:i + 1] + '\n proof { ' + pre + ' }\n' + body[i + 1:]
        if c.tail and not getattr(self, 'no_hints', False):
            body = insert_before_tail(body, ' proof { ' + c.tail + ' }\n')
        return body

    def spec_impl(self, im: Impl, f: Fn, c: Contract):
        """companion *SpecImpl block for an operator impl (rule R14)."""
        tn = trait_name(im.trait)
        m = OP_TRAITS[tn]
        g = subst_text(impl_generics(im, self.subst), self.subst)
        targs = subst_text(trait_args(im.trait), self.subst)
        st = subst_text(im.selfty, self.subst)
        rhs_ty = targs if targs else st
        out_ty = None
        for it in im.items:
            if isinstance(it, Assoc) and it.name == 'Output':
                txt = norm(self.src.render(it.toks[0], it.toks[1], self.subst))
                out_ty = txt[txt.index('=') + 1:].rstrip(';').strip()
        tr = '%sSpecImpl%s' % (tn, '<' + targs + '>' if targs else '')
        if tn == 'Neg':
            return ('impl%s %s for %s {\n    open spec fn obeys_neg_spec() -> bool { true }\n'
                    '    open spec fn neg_req(self) -> bool { true }\n'
                    '    open spec fn neg_spec(self) -> %s { %s }\n}\n') % (g, tr, st, out_ty, c.spec)
        if tn.endswith('Assign'):
            return ('impl%s %s for %s {\n    open spec fn obeys_%s_spec() -> bool { true }\n'
                    '    open spec fn %s_req(&self, rhs: %s) -> bool { true }\n'
                    '    open spec fn %s_spec(&self, rhs: %s) -> &%s { &(%s) }\n}\n') % (
                        g, tr, st, m, m, rhs_ty, m, rhs_ty, st, c.spec)
        return ('impl%s %s for %s {\n    open spec fn obeys_%s_spec() -> bool { true }\n'
                '    open spec fn %s_req(self, rhs: %s) -> bool { true }\n'
                '    open spec fn %s_spec(self, rhs: %s) -> %s { %s }\n}\n') % (
                    g, tr, st, m, m, rhs_ty, m, rhs_ty, out_ty, c.spec)


def derive_prelude_U(s):
    """model U from model R, mechanically: the scalar's + - * / % and unary - become uninterpreted functions and the ring
    lemmas (facts of model R) are dropped; everything else (elementary functions over the view, approx model) is unchanged"""
    s = s.replace('// prelude_R:', '// prelude_U (derived from prelude_R by emit.derive_prelude_U: scalar arithmetic UNINTERPRETED)\n// prelude_R:', 1)
    for op in ('add', 'sub', 'mul', 'div', 'rem'):
        s = re.sub(r'pub open spec fn s_%s\(a: Sc, b: Sc\) -> Sc \{[^\n]*\}\n' % op, 'pub uninterp spec fn s_%s(a: Sc, b: Sc) -> Sc;\n' % op, s)
    s = re.sub(r'pub open spec fn s_neg\(a: Sc\) -> Sc \{[^\n]*\}\n', 'pub uninterp spec fn s_neg(a: Sc) -> Sc;\n', s)
    s = re.sub(r'pub broadcast proof fn s_(mul_comm|add_comm|sub_def|neg_neg|neg_add|mul_neg|mul_assoc|mul_add)\([^\n]*\n', '', s)
    if re.search(r'open spec fn s_(add|sub|mul|div|rem|neg)\(', s):
        raise ExtractError('prelude_U derivation: an arithmetic operation of the model scalar is still interpreted')
    return s


def insert_before_tail(body, text):
    """insert text before the tail expression of a block `{ stmts; tail }`.
    The tail expression starts after the last top-level ';' or '}' -- we use a
    simple scan at depth 1."""
    assert body.lstrip().startswith('{')
    start = body.index('{')
    depth = 0
    last = start + 1
    i = start
    n = len(body)
    in_str = False
    while i < n:
        ch = body[i]
        if ch in '([{':
            depth += 1
        elif ch in ')]}':
            depth -= 1
            if depth == 0:
                break
        elif ch == ';' and depth == 1:
            last = i + 1
        i += 1
    return body[:last] + '\n' + text + body[last:]


CLOSURE_RE = re.compile(r'\|([^|()]*)\|(\s*)(\{)?')


def annotate_closures(body, closures, f):
    """rule R10: inject parameter types and a requires/ensures into the k-th closure of the body"""
    ms = [m for m in CLOSURE_RE.finditer(body) if not re.search(r'\|\s*$', body[:m.start()])]
    out = body
    for k in sorted(closures, reverse=True):
        if k >= len(ms):
            if not ms:
                continue        # the function no longer contains a closure: nothing to annotate (the contract of the function itself stands)
            raise ExtractError('closure #%d not found in %s (lost anchor)' % (k, f.name))
        m = ms[k]
        a = closures[k]
        spec = ''
        if a.get('requires'):
            spec += ' requires ' + ', '.join(a['requires'])
        if a.get('ensures'):
            spec += ' ensures ' + ', '.join(a['ensures'])
        params_txt = a['params']
        cl_end = out.find(';', m.end())
        region = out[m.end():] if cl_end < 0 else out[m.end():]
        fixed = []
        for prm in split_top(params_txt):
            nm, _, ty = prm.partition(':')
            nm, ty = nm.strip(), ty.strip()
            mm = re.search(r'let (a__\d+_\d+) = %s;' % re.escape(nm), region)
            if mm:
                mt = re.search(r'let (?:mut )?[A-Za-z_][A-Za-z0-9_]*: ([^=;]+) = %s;' % re.escape(mm.group(1)), region)
                if mt and re.fullmatch(r'[iu](8|16|32|64|size)', mt.group(1).strip()):
                    ty = mt.group(1).strip()
            fixed.append('%s: %s' % (nm, ty))
        head = '|%s| -> (%s)%s' % (', '.join(fixed), a['ret'], spec)
        pre = (' proof { ' + a['pre'] + ' } ') if a.get('pre') else ''
        if m.group(3):
            out = out[:m.start()] + head + m.group(2) + '{' + pre + out[m.end():]
        else:
            # expression-bodied closure: runs to the closing parenthesis of the enclosing call
            depth, j = 0, m.end()
            while j < len(out):
                ch = out[j]
                if ch in '([{':
                    depth += 1
                elif ch in ')]}':
                    if depth == 0:
                        break
                    depth -= 1
                elif ch in ',;' and depth == 0:
                    break
                j += 1
            out = out[:m.start()] + head + ' {' + pre + ' ' + out[m.end():j].strip() + ' }' + out[j:]
    return out
