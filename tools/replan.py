"""General replay planner: evaluates the *contract text* of a function (requires / ensures, as emitted into the Verus unit)
on the REAL code.

The ensures clauses are parsed (a small precedence-climbing parser over the spec-expression subset the contracts use) and
evaluated symbolically over the parameters with the generated spec functions of tools/sym.py; every clause of the shapes

    [guard ==>]  ret[.path] == <spec expression>  [&& ...]
    ret.is_none() <==> <condition>            ret.is_some() ==> ret.unwrap()[.path] == <spec expression>
    *final(self) == <spec expression>

becomes run-time checks of a generated Rust program that links the real crate (path dependency on /repo), draws inputs,
skips those that violate `requires`, calls the real function and compares every component with the spec value computed in
f64.  Clauses outside the subset are skipped (and listed); if none is left the obligation has no replay generator.
Comparisons in guards that are closer to their threshold than 1e-6 make the point inconclusive (it is skipped), so that
rounding can never be reported as a failing input.
"""
import re

import sym
from sym import R, B, Struct, lift
from rsparse import tokenize


class NoReplay(Exception):
    pass


# ---------------------------------------------------------------- values
class Got:
    """a place in the result of the real call: a Rust expression text"""
    def __init__(self, rust):
        self.rust = rust


class RB:
    """a boolean as Rust text; `near` lists expressions whose absolute value must exceed EPS for the point to be conclusive"""
    def __init__(self, rust, near=()):
        self.rust = rust
        self.near = list(near)


class Check:
    def __init__(self, got, want, kind='scalar'):
        self.got, self.want, self.kind = got, want, kind      # want: Rust text


class Checks:
    def __init__(self, items, guard=None):
        self.items = items       # list of Check
        self.guard = guard       # RB or None


def rust_expr(a, env):
    from replay import rust_expr as rx
    return rx(a, env)


def to_rb(v, env):
    if isinstance(v, RB):
        return v
    if isinstance(v, B):
        return b_to_rb(v.ast, env)
    if isinstance(v, bool):
        return RB('true' if v else 'false')
    raise NoReplay('not a boolean: %r' % (v,))


def b_to_rb(a, env):
    k = a[0]
    if k == 'cmp':
        l, r = rust_expr(a[2], env), rust_expr(a[3], env)
        return RB('(%s %s %s)' % (l, a[1], r), ['(%s - %s)' % (l, r)])
    if k in ('and', 'or'):
        x, y = b_to_rb(a[1], env), b_to_rb(a[2], env)
        return RB('(%s %s %s)' % (x.rust, '&&' if k == 'and' else '||', y.rust), x.near + y.near)
    if k == 'not':
        x = b_to_rb(a[1], env)
        return RB('(!%s)' % x.rust, x.near)
    raise NoReplay('boolean form %r' % (k,))


# ---------------------------------------------------------------- parser / evaluator
BIN = [('==>', 1), ('<==>', 1), ('||', 2), ('&&', 3), ('==', 4), ('!=', 4), ('<', 4), ('<=', 4), ('>', 4), ('>=', 4),
       ('+', 5), ('-', 5), ('*', 6), ('/', 6), ('%', 6)]
PREC = dict(BIN)


class Eval:
    def __init__(self, text, env, F, rust_env):
        self.toks = [t for t in tokenize(text)]
        # `==>` and `<==>` are lexed as `==` `>` / `<=` `=>`: re-join
        self.toks = self._join(self.toks)
        self.i = 0
        self.env = env          # name -> symbolic value / Got
        self.F = F
        self.renv = rust_env    # scalar variable name -> Rust text

    @staticmethod
    def _join(toks):
        out = []
        i = 0
        while i < len(toks):
            t = toks[i]
            nx = toks[i + 1].text if i + 1 < len(toks) else None
            if t.text == '==' and nx == '>' and toks[i + 1].start == t.end:
                out.append(type(t)('p', '==>', t.start, toks[i + 1].end)); i += 2; continue
            if t.text == '<=' and nx == '=>' and toks[i + 1].start == t.end:
                out.append(type(t)('p', '<==>', t.start, toks[i + 1].end)); i += 2; continue
            if t.text == '<' and nx == '==' and i + 2 < len(toks) and toks[i + 2].text == '>':
                out.append(type(t)('p', '<==>', t.start, toks[i + 2].end)); i += 3; continue
            out.append(t)
            i += 1
        return out

    def peek(self):
        return self.toks[self.i].text if self.i < len(self.toks) else None

    def take(self, text=None):
        t = self.toks[self.i]
        if text is not None and t.text != text:
            raise NoReplay('expected %r, found %r' % (text, t.text))
        self.i += 1
        return t

    def parse(self):
        v = self.expr(0)
        if self.i != len(self.toks):
            raise NoReplay('trailing text: %r' % self.peek())
        return v

    def expr(self, minp):
        lhs = self.unary()
        while True:
            op = self.peek()
            if op not in PREC or PREC[op] < minp:
                return lhs
            p = PREC[op]
            self.take()
            rhs = self.expr(p if op == '==>' else p + 1)
            lhs = self.binop(op, lhs, rhs)

    def unary(self):
        t = self.peek()
        if t == '-':
            self.take()
            v = self.unary()
            if isinstance(v, R):
                return -v
            raise NoReplay('negation of a non-scalar')
        if t == '!':
            self.take()
            v = to_rb(self.unary(), self.renv)
            return RB('(!%s)' % v.rust, v.near)
        if t in ('*', '&'):
            self.take()
            return self.unary()
        return self.postfix(self.primary())

    def primary(self):
        t = self.take()
        if t.text == '(':
            if self.peek() == '{':
                raise NoReplay('block expression')
            v = self.expr(0)
            if self.peek() == ',':
                raise NoReplay('tuple')
            self.take(')')
            return v
        if t.kind == 'num':
            m = re.fullmatch(r'([0-9_]+(?:\.[0-9_]+)?)real', t.text)
            if m:
                return R.lit(m.group(1).replace('_', ''))
            if re.fullmatch(r'[0-9_]+', t.text):
                return int(t.text.replace('_', ''))
            raise NoReplay('literal %s' % t.text)
        if t.kind == 'id':
            name = t.text
            if name in ('old', 'final') and self.peek() == '(':
                self.take('(')
                inner = self.take()
                self.take(')')
                if name == 'final':
                    return Got('v_' + inner.text)
                return self.lookup(inner.text)
            if name in ('forall', 'exists', 'if', 'let', 'match', 'choose'):
                raise NoReplay('%s expression' % name)
            if name in ('true', 'false'):
                return RB(name)
            if self.peek() == '{':
                raise NoReplay('struct literal')
            if self.peek() == '::':
                raise NoReplay('path expression')
            if self.peek() == '(':
                return self.call(name)
            return self.lookup(name)
        raise NoReplay('token %r' % t.text)

    def lookup(self, name):
        if name in self.env:
            return self.env[name]
        raise NoReplay('unknown name %s' % name)

    def args(self):
        self.take('(')
        out = []
        while self.peek() != ')':
            out.append(self.expr(0))
            if self.peek() == ',':
                self.take()
        self.take(')')
        return out

    def call(self, name):
        args = self.args()
        if name in SCALAR_FNS:
            return SCALAR_FNS[name](*args)
        if name in self.F:
            for a in args:
                if isinstance(a, (Got, RB, Check, Checks)):
                    raise NoReplay('spec function applied to a run-time value')
            return self.F[name](*[lift(a) if isinstance(a, int) else a for a in args])
        raise NoReplay('spec function %s is not generated from tools/sym.py' % name)

    def postfix(self, v):
        while True:
            t = self.peek()
            if t == '@':
                self.take()
                continue
            if t == 'as':
                self.take()
                self.take()        # int / real / nat / usize ...
                continue
            if t == '.':
                self.take()
                f = self.take().text
                if self.peek() == '(':
                    args = self.args()
                    v = self.method(v, f, args)
                else:
                    v = self.field(v, f)
                continue
            return v

    def field(self, v, f):
        if isinstance(v, Got):
            return Got('%s.%s' % (v.rust, f))
        if isinstance(v, Struct):
            if not hasattr(v, f):
                raise NoReplay('no field %s' % f)
            return getattr(v, f)
        raise NoReplay('field %s of %r' % (f, type(v).__name__))

    def method(self, v, f, args):
        if isinstance(v, Got):
            if f in ('is_some', 'is_none') and not args:
                return RB('%s.%s()' % (v.rust, f))
            if f == 'unwrap' and not args:
                return Got('%s.unwrap()' % v.rust)
        raise NoReplay('method %s' % f)

    def binop(self, op, a, b):
        if op in ('+', '-', '*', '/', '%'):
            if isinstance(a, int) and isinstance(b, int):
                return {'+': a + b, '-': a - b, '*': a * b}.get(op) if op in '+-*' else (_ for _ in ()).throw(NoReplay('integer division'))
            a = lift(a) if isinstance(a, int) else a
            b = lift(b) if isinstance(b, int) else b
            if not (isinstance(a, R) and isinstance(b, R)):
                raise NoReplay('arithmetic on non-scalars')
            return {'+': a + b, '-': a - b, '*': a * b, '/': a / b, '%': a % b}[op]
        if op in ('<', '<=', '>', '>='):
            a = lift(a) if isinstance(a, int) else a
            b = lift(b) if isinstance(b, int) else b
            if not (isinstance(a, R) and isinstance(b, R)):
                raise NoReplay('comparison of non-scalars')
            return {'<': sym.s_lt(a, b), '<=': sym.s_le(a, b), '>': sym.s_lt(b, a), '>=': sym.s_le(b, a)}[op]
        if op in ('==', '!='):
            v = self.equal(a, b)
            if op == '!=':
                if isinstance(v, Checks):
                    raise NoReplay('!= on a result')
                v = to_rb(v, self.renv)
                return RB('(!%s)' % v.rust, v.near)
            return v
        if op in ('&&', '||'):
            if isinstance(a, Checks) or isinstance(b, Checks):
                if op == '||' or not (isinstance(a, Checks) and isinstance(b, Checks)) or a.guard or b.guard:
                    raise NoReplay('mixed conjunction of result checks and conditions')
                return Checks(a.items + b.items)
            x, y = to_rb(a, self.renv), to_rb(b, self.renv)
            return RB('(%s %s %s)' % (x.rust, op, y.rust), x.near + y.near)
        if op == '==>':
            g = to_rb(a, self.renv)
            if isinstance(b, Checks):
                if b.guard:
                    g = RB('(%s && %s)' % (g.rust, b.guard.rust), g.near + b.guard.near)
                return Checks(b.items, g)
            raise NoReplay('implication whose conclusion is not about the result')
        if op == '<==>':
            if isinstance(a, RB) and not isinstance(b, (Checks, Got)):
                return Checks([Check(a.rust, to_rb(b, self.renv), 'bool')])
            raise NoReplay('<==> form')
        raise NoReplay('operator %s' % op)

    def equal(self, a, b):
        if isinstance(b, Got) and not isinstance(a, Got):
            a, b = b, a
        if isinstance(a, Got):
            if isinstance(b, Got):
                raise NoReplay('result == result')
            if isinstance(b, int):
                b = lift(b)
            if isinstance(b, R):
                return Checks([Check(a.rust, rust_expr(b.ast, self.renv))])
            if isinstance(b, (B, RB)):
                return Checks([Check(a.rust, to_rb(b, self.renv), 'bool')])
            if isinstance(b, Struct):
                from replay import leaves_paths
                return Checks([Check(a.rust + p, rust_expr(l.ast, self.renv)) for p, l in zip(leaves_paths(type(b)), b.leaves())])
            raise NoReplay('result compared with %r' % type(b).__name__)
        if isinstance(a, int):
            a = lift(a)
        if isinstance(b, int):
            b = lift(b)
        if isinstance(a, R) and isinstance(b, R):
            return sym.s_eq(a, b)
        if isinstance(a, Struct) and isinstance(b, Struct) and type(a) is type(b):
            out = None
            for x, y in zip(a.leaves(), b.leaves()):
                e = sym.s_eq(x, y)
                out = e if out is None else (out & e)
            return out
        raise NoReplay('equality of %s and %s' % (type(a).__name__, type(b).__name__))


def _fn1(name):
    def f(x):
        x = lift(x) if isinstance(x, int) else x
        return R('%s(%s)' % (name, x.spec), '%s(%s)' % (name, x.flat), ('fn', name, [x.ast]))
    return f


SCALAR_FNS = {
    's_add': lambda a, b: lift(a) + lift(b), 's_sub': lambda a, b: lift(a) - lift(b), 's_mul': lambda a, b: lift(a) * lift(b),
    's_div': lambda a, b: lift(a) / lift(b), 's_rem': lambda a, b: lift(a) % lift(b), 's_neg': lambda a: -lift(a),
    's_lit': lambda a: lift(a), 's_zero': lambda: R.lit(0), 's_one': lambda: R.lit(1), 'sc': lambda a: lift(a),
    's_eq': lambda a, b: sym.s_eq(a, b), 's_lt': lambda a, b: sym.s_lt(a, b), 's_le': lambda a, b: sym.s_le(a, b),
    'r_sqrt': _fn1('r_sqrt'), 'r_sin': _fn1('r_sin'), 'r_cos': _fn1('r_cos'), 'r_tan': _fn1('r_tan'), 'r_asin': _fn1('r_asin'),
    'r_acos': _fn1('r_acos'), 'r_atan': _fn1('r_atan'), 'r_abs': _fn1('r_abs'),
    'r_pi': lambda: R('sc(r_pi())', 'r_pi()', ('fn', 'r_pi', [])),
}


# ---------------------------------------------------------------- plan
def plan(fn_rec, F, angle='Rad<f64>'):
    from replay import all_struct_classes, rust_type, literal
    sig = fn_rec['sig']
    classes = all_struct_classes()
    selfty = sig['selfty']
    ptab = []
    for p in sig['params']:
        p = p.strip()
        m = re.fullmatch(r"(&)?\s*('[a-z_]+\s+)?(mut\s+)?self", p)
        if m:
            st = rust_type(selfty)
            ptab.append(('self', st.lstrip('&').strip(), bool(m.group(1)) or st.startswith('&'), bool(m.group(3)) and bool(m.group(1))))
            continue
        m = re.match(r'(?:mut\s+)?([A-Za-z_][A-Za-z0-9_]*)\s*:\s*(.*)$', p, re.S)
        if not m:
            raise NoReplay('cannot parse parameter %r' % p)
        ty = rust_type(m.group(2).strip())
        if ty == 'Self':
            ty = rust_type(selfty).lstrip('&').strip()
        ty = re.sub(r'\bA\b', angle, ty)
        ptab.append((m.group(1), ty.lstrip('&').replace('mut ', '').strip(), ty.startswith('&'), ty.startswith('&mut')))
    decls, nvals, ivals = [], [], []
    env = {}
    for (nm, ty, is_ref, is_mut) in ptab:
        key = ty.replace('f64', 'Sc').replace(' ', '')
        if ty == 'f64':
            cls = R
        elif key in classes:
            cls = classes[key]
        elif ty in ('usize', 'isize', 'i32', 'u32'):
            iv = 'k%d' % len(ivals)
            ivals.append((iv, ty))
            decls.append((nm, ty, is_ref, is_mut, None, iv, []))
            env[nm] = R(iv, iv, ('var', iv))
            continue
        elif ty == 'bool':
            raise NoReplay('bool parameter')
        else:
            raise NoReplay('no symbolic class for parameter type %s' % ty)
        start = len(nvals)
        lit = literal(cls, nm, nvals)
        names = nvals[start:]
        decls.append((nm, ty, is_ref, is_mut, cls, lit, names))
        it = iter(names)

        def build(c):
            if c is R:
                n = next(it)
                return R(n, n, ('var', n))
            return c(*[build(fc) for _, fc in c.FIELDS])
        env[nm] = build(cls)
    renv = {n: n for n in nvals}
    renv.update({iv: '(%s as f64)' % iv for iv, _ in ivals})
    env['ret'] = Got('r')
    pre = []
    for rq in fn_rec.get('requires', []):
        for part in split_commas(rq):
            v = Eval(part, env, F, renv).parse()
            pre.append(to_rb(v, renv))
    clauses, skipped = [], []
    for e in fn_rec.get('ensures', []):
        for part in split_commas(e):
            try:
                v = Eval(part, env, F, renv).parse()
                if not isinstance(v, Checks):
                    raise NoReplay('clause does not mention the result')
                clauses.append((part, v))
            except NoReplay as ex:
                skipped.append('%s  [%s]' % (part[:120], ex))
            except (TypeError, AttributeError, AssertionError, KeyError, ValueError) as ex:
                skipped.append('%s  [evaluation: %r]' % (part[:120], ex))
    if not clauses:
        raise NoReplay('no ensures clause within the replayable subset: ' + '; '.join(skipped)[:600])
    trait = sig['trait']
    st = rust_type(selfty)
    st = re.sub(r'\bA\b', angle, st)
    if trait:
        tr = rust_type(re.sub(r'^(::)?(core|std)::[a-z]+::', '', trait))
        tr = re.sub(r'\bA\b', angle, tr)
        callee = '<%s as %s>::%s' % (st, tr, sig['fn'])
    else:
        callee = '<%s>::%s' % (st.lstrip('&').strip(), sig['fn'])
    argv = [('&mut ' if is_mut else '&' if is_ref else '') + 'v_' + nm for (nm, ty, is_ref, is_mut, cls, lit, names) in decls]
    return dict(nvals=nvals, ivals=ivals, decls=decls, callee=callee, argv=argv, pre=pre, clauses=clauses, skipped=skipped)


def split_commas(text):
    """top-level commas of a requires/ensures entry (the emitter joins clauses with ', ')"""
    out, depth, cur = [], 0, ''
    for ch in text:
        if ch in '([{':
            depth += 1
        elif ch in ')]}':
            depth -= 1
        if ch == ',' and depth == 0:
            out.append(cur.strip())
            cur = ''
        else:
            cur += ch
    if cur.strip():
        out.append(cur.strip())
    return out


EPS = '1e-6'


def program(pl, seed, n_points, fixed=None):
    L = ['#![allow(unused_mut, unused_variables, unused_imports, non_snake_case, unused_parens, unused_assignments)]', 'use cgmath::*;', 'use std::ops::*;',
         'fn close(got: f64, want: f64) -> bool { (got - want).abs() <= 1e-9 * (1.0 + want.abs()) || (got.is_nan() && want.is_nan()) }',
         'fn weird(x: f64) -> bool { x.is_nan() || x.is_infinite() }',
         'fn main() {', '    let mut st: u64 = %du64.wrapping_mul(6364136223846793005).wrapping_add(1442695040888963407);' % seed,
         '    let mut rnd = move || -> i64 { st = st.wrapping_mul(6364136223846793005).wrapping_add(1442695040888963407); ((st >> 33) % 9) as i64 - 4 };',
         '    let mut used = 0usize;',
         '    for it in 0..%d {' % n_points]
    k = 0
    for n in pl['nvals']:
        if fixed is not None:
            L.append('        let %s: f64 = %r;' % (n, float(fixed[k])))
        else:
            L.append('        let %s: f64 = rnd() as f64;' % n)
        k += 1
    for iv, ty in pl['ivals']:
        if fixed is not None:
            L.append('        let %s: %s = %d;' % (iv, ty, int(fixed[k])))
        else:
            L.append('        let %s: %s = (rnd() + 4) as %s %% 5;' % (iv, ty, ty))
        k += 1
    for (nm, ty, is_ref, is_mut, cls, lit, names) in pl['decls']:
        L.append('        let mut v_%s: %s = %s;' % (nm, ty, lit))
    allin = ', '.join(pl['nvals'] + ['%s as f64' % iv for iv, _ in pl['ivals']])
    for g in pl['pre']:
        for nr in g.near:
            L.append('        if (%s).abs() < %s { continue; }' % (nr, EPS))
        L.append('        if !%s { continue; }' % g.rust)
    # guards are evaluated on the inputs BEFORE the call (a &mut self call may change v_self)
    for ci, (text, ch) in enumerate(pl['clauses']):
        if ch.guard is not None and 'r.' not in ch.guard.rust and not ch.guard.rust.startswith('r'):
            for nr in ch.guard.near:
                L.append('        if (%s).abs() < %s { continue; }' % (nr, EPS))
            L.append('        let g%d: bool = %s;' % (ci, ch.guard.rust))
    wants = []
    for ci, (text, ch) in enumerate(pl['clauses']):
        for ki, c in enumerate(ch.items):
            if c.kind == 'bool':
                for nr in c.want.near:
                    L.append('        if (%s).abs() < %s { continue; }' % (nr, EPS))
                L.append('        let w%d_%d: bool = %s;' % (ci, ki, c.want.rust))
            else:
                L.append('        let w%d_%d: f64 = %s;' % (ci, ki, c.want))
    L.append('        let r = %s(%s);' % (pl['callee'], ', '.join(pl['argv'])))
    L.append('        used += 1;')
    for ci, (text, ch) in enumerate(pl['clauses']):
        gtxt = None
        if ch.guard is not None:
            gtxt = ('g%d' % ci) if ('r.' not in ch.guard.rust and not ch.guard.rust.startswith('r')) else ch.guard.rust
        L.append('        if %s {' % (gtxt or 'true'))
        for ki, c in enumerate(ch.items):
            label = (c.got + ' of clause %d' % ci).replace('"', "'")
            if c.kind == 'bool':
                L.append('            { let got: bool = %s; if got != w%d_%d { println!("MISMATCH component={} got={:?} want={:?} inputs={:?}", "%s", got, w%d_%d, vec![%s]); return; } }' % (
                    c.got, ci, ki, label.replace(' ', '_'), ci, ki, allin))
            else:
                L.append('            { let got: f64 = %s; let want = w%d_%d; if !weird(got) && !weird(want) && !close(got, want) { println!("MISMATCH component={} got={:?} want={:?} inputs={:?}", "%s", got, want, vec![%s]); return; } }' % (
                    c.got, ci, ki, label.replace(' ', '_'), allin))
        L.append('        }')
    L.append('    }')
    L.append('    println!("AGREE points={}", used);')
    L.append('}')
    return '\n'.join(L) + '\n'
