#!/bin/bash
# regress.sh [seeded|benign|all] : apply every stored change to /repo in turn, run the property's check, undo the change.
# seeded changes must give rc=1 (VIOLATION), behaviour-preserving ones rc=0.  One line per change on stdout.
WHAT=${1:-all}
cd /verif
[ -n "$(git -C /repo status --porcelain)" ] && { echo "/repo is not clean"; exit 9; }
run() { # dir want
  d=$1; want=$2; id=$(basename $d); P=${id:0:3}
  ( cd /repo && git apply /verif/$d/patch.diff ) || { echo "$id: patch does not apply"; return; }
  t0=$(date +%s); ./check $P > /tmp/regress.$id.log 2>&1; rc=$?; t1=$(date +%s)
  git -C /repo checkout -- .
  tag=ok; [ $rc != $want ] && tag=UNEXPECTED
  echo "$id: rc=$rc want=$want $tag $((t1-t0))s $(grep -c '^VIOLATION' /tmp/regress.$id.log) violation lines; $(grep -m1 -E '^UNDECIDED|^OK' /tmp/regress.$id.log | cut -c1-160)"
}
if [ $WHAT = benign ] || [ $WHAT = all ]; then for d in benign/C*; do run $d 0; done; fi
if [ $WHAT = seeded ] || [ $WHAT = all ]; then for d in seeded/C*; do run $d 1; done; fi
