"""Minimal Rust item parser for the output of `rustc -Zunpretty=expanded`.

It tokenises the text (comments, strings, chars, lifetimes, nested delimiters)
and splits it into an item tree: modules, structs, traits, impls, functions.
Nothing is rewritten here: every item keeps the (start, end) character offsets
of its pieces in the source so that bodies can be taken verbatim.
"""
import re
from dataclasses import dataclass, field
from typing import List, Optional

TOKEN_RE = re.compile(r"""
    (?P<ws>\s+)
  | (?P<lc>//[^\n]*)
  | (?P<bc>/\*.*?\*/)
  | (?P<rstr>b?r(?P<h>\#*)".*?"(?P=h))
  | (?P<str>b?"(?:[^"\\]|\\.)*")
  | (?P<life>'[A-Za-z_][A-Za-z0-9_]*(?!'))
  | (?P<chr>b?'(?:[^'\\]|\\.[^']*)')
  | (?P<num>[0-9][0-9A-Za-z_]*(?:\.[0-9][0-9A-Za-z_]*)?(?:[eE][+-]?[0-9_]+[A-Za-z0-9_]*)?)
  | (?P<id>(?:r\#)?[A-Za-z_][A-Za-z0-9_]*)
  | (?P<p3><<=|>>=|\.\.\.|\.\.=)
  | (?P<p2>::|->|=>|==|!=|<=|>=|&&|\|\||\+=|-=|\*=|/=|%=|\^=|&=|\|=|<<|\.\.)
  | (?P<p1>.)
""", re.X | re.S)


@dataclass
class Tok:
    kind: str
    text: str
    start: int
    end: int


def tokenize(src: str) -> List[Tok]:
    out = []
    pos = 0
    n = len(src)
    while pos < n:
        m = TOKEN_RE.match(src, pos)
        if not m:
            raise ValueError("cannot tokenise at %d: %r" % (pos, src[pos:pos + 40]))
        k = m.lastgroup
        if k == 'h':
            k = 'rstr'
        if k not in ('ws', 'lc', 'bc'):
            kind = {'p1': 'p', 'p2': 'p', 'p3': 'p'}.get(k, k)
            out.append(Tok(kind, m.group(0), m.start(), m.end()))
        pos = m.end()
    return out


OPEN = {'(': ')', '[': ']', '{': '}'}
CLOSE = {')', ']', '}'}


def match_delims(toks: List[Tok]):
    """return dict open_index -> close_index for ( [ { tokens."""
    st = []
    mt = {}
    for i, t in enumerate(toks):
        if t.kind == 'p':
            if t.text in OPEN:
                st.append(i)
            elif t.text in CLOSE:
                o = st.pop()
                if OPEN[toks[o].text] != t.text:
                    raise ValueError("mismatched delimiter at %d" % t.start)
                mt[o] = i
    if st:
        raise ValueError("unclosed delimiter at %d" % toks[st[-1]].start)
    return mt


@dataclass
class Fn:
    name: str
    sig: tuple          # (tok_lo, tok_hi) indices: from 'fn' (after qualifiers) up to but excluding body '{' or ';'
    quals: List[str]    # e.g. ['pub', 'const', 'unsafe']
    body: Optional[tuple]  # (tok_lo, tok_hi) inclusive of braces, or None
    attrs: List[str]
    owner: object = None   # Impl or Trait or None
    module: str = ''
    span: tuple = None      # char offsets of whole item


@dataclass
class Impl:
    header: str           # normalised text 'impl<..> Trait for Type where ..'
    header_toks: tuple
    items: list = field(default_factory=list)   # Fn, AssocType, AssocConst
    module: str = ''
    attrs: List[str] = field(default_factory=list)
    span: tuple = None
    trait: Optional[str] = None     # text of trait path (with generics) or None for inherent
    selfty: str = ''
    generics: str = ''
    where: str = ''


@dataclass
class Trait:
    name: str
    header: str
    header_toks: tuple
    items: list = field(default_factory=list)
    module: str = ''
    span: tuple = None


@dataclass
class Other:
    kind: str      # struct, enum, use, mod, macro, type, const, static, extern
    name: str
    toks: tuple
    module: str = ''
    attrs: List[str] = field(default_factory=list)
    span: tuple = None
    quals: List[str] = field(default_factory=list)


@dataclass
class Assoc:
    kind: str      # 'type' | 'const'
    name: str
    toks: tuple
    span: tuple = None


def norm(text: str) -> str:
    return re.sub(r'\s+', ' ', text).strip()


class Parser:
    def __init__(self, src: str):
        self.src = src
        self.toks = tokenize(src)
        self.mt = match_delims(self.toks)
        self.items = []      # flat list of all items with module paths

    def text(self, lo, hi):
        """source text of tokens lo..hi (exclusive hi)"""
        if lo >= hi:
            return ''
        return self.src[self.toks[lo].start:self.toks[hi - 1].end]

    def toktext(self, lo, hi):
        """token texts joined by single spaces where needed (normalised)"""
        return norm(self.text(lo, hi))

    def parse(self):
        self._items(0, len(self.toks), '', None, self.items)
        return self.items

    # ------------------------------------------------------------------
    def _skip_angle(self, i, hi):
        """toks[i] is '<': return index after the matching '>' (handles '>>', '->' excluded)."""
        depth = 0
        t = self.toks
        while i < hi:
            x = t[i]
            if x.kind == 'p':
                if x.text == '<':
                    depth += 1
                elif x.text == '>':
                    depth -= 1
                elif x.text == '>>':
                    depth -= 2
                elif x.text == '<<':
                    depth += 2
                elif x.text in OPEN:
                    i = self.mt[i]
                if depth <= 0 and x.text in ('>', '>>'):
                    return i + 1
            i += 1
        raise ValueError('unclosed <')

    def _find_body(self, i, hi):
        """from i scan to first '{' or ';' at delimiter depth 0; return index."""
        t = self.toks
        while i < hi:
            x = t[i]
            if x.kind == 'p':
                if x.text == '{' or x.text == ';':
                    return i
                if x.text in ('(', '['):
                    i = self.mt[i]
            i += 1
        raise ValueError('no body found')

    def _items(self, lo, hi, module, owner, out):
        t = self.toks
        i = lo
        while i < hi:
            start = i
            attrs = []
            # attributes
            while i < hi and t[i].text == '#':
                j = i + 1
                if t[j].text == '!':
                    j += 1
                assert t[j].text == '[', self.src[t[i].start:t[i].start + 50]
                e = self.mt[j]
                attrs.append(self.toktext(i, e + 1))
                i = e + 1
            if i >= hi:
                break
            quals = []
            # visibility & qualifiers
            while True:
                x = t[i]
                if x.text == 'pub':
                    quals.append('pub')
                    i += 1
                    if t[i].text == '(':
                        i = self.mt[i] + 1
                elif x.text in ('const', 'unsafe', 'async', 'default') and t[i + 1].text in ('fn', 'unsafe', 'const', 'extern', 'impl', 'trait'):
                    quals.append(x.text)
                    i += 1
                elif x.text == 'extern' and t[i + 1].kind == 'str':
                    quals.append('extern')
                    i += 2
                else:
                    break
            x = t[i]
            kw = x.text
            if kw == 'mod':
                name = t[i + 1].text
                if t[i + 2].text == ';':
                    i += 3
                    continue
                b = i + 2
                e = self.mt[b]
                sub = (module + '::' + name) if module else name
                out.append(Other('mod', name, (start, e + 1), module, attrs, (t[start].start, t[e].end), quals))
                self._items(b + 1, e, sub, None, out)
                i = e + 1
            elif kw == 'macro_rules':
                # macro_rules ! name { ... }  or ( ... ) ;
                b = i + 3
                e = self.mt[b]
                i = e + 1
                if i < hi and t[i].text == ';':
                    i += 1
                out.append(Other('macro', t[b - 1].text, (start, i), module, attrs, (t[start].start, t[i - 1].end)))
            elif kw in ('use', 'extern', 'type', 'static') or (kw == 'const' and t[i + 1].text != 'fn'):
                e = i
                while t[e].text != ';':
                    if t[e].text in OPEN:
                        e = self.mt[e]
                    e += 1
                name = t[i + 1].text
                if owner is not None and kw in ('type', 'const'):
                    owner.items.append(Assoc(kw, name, (start, e + 1), (t[start].start, t[e].end)))
                else:
                    out.append(Other(kw, name, (start, e + 1), module, attrs, (t[start].start, t[e].end), quals))
                i = e + 1
            elif kw in ('struct', 'enum', 'union'):
                name = t[i + 1].text
                b = self._find_body(i, hi)
                if t[b].text == '{':
                    e = self.mt[b]
                else:
                    e = b
                out.append(Other(kw, name, (start, e + 1), module, attrs, (t[start].start, t[e].end), quals))
                i = e + 1
            elif kw == 'trait':
                name = t[i + 1].text
                b = self._find_body(i, hi)
                e = self.mt[b]
                tr = Trait(name, self.toktext(i, b), (i, b), [], module, (t[start].start, t[e].end))
                out.append(tr)
                self._items(b + 1, e, module, tr, out)
                i = e + 1
            elif kw == 'impl':
                b = self._find_body(i, hi)
                e = self.mt[b]
                im = Impl(self.toktext(i, b), (i, b), [], module, attrs, (t[start].start, t[e].end))
                self._split_impl_header(im)
                out.append(im)
                self._items(b + 1, e, module, im, out)
                i = e + 1
            elif kw == 'fn':
                name = t[i + 1].text
                b = self._find_body(i, hi)
                if t[b].text == '{':
                    e = self.mt[b]
                    body = (b, e + 1)
                else:
                    e = b
                    body = None
                f = Fn(name, (i, b), quals, body, attrs, owner, module, (t[start].start, t[e].end))
                if owner is not None:
                    owner.items.append(f)
                else:
                    out.append(f)
                i = e + 1
            else:
                raise ValueError('unexpected token %r at %d: %r' % (kw, x.start, self.src[x.start:x.start + 80]))

    def _split_impl_header(self, im: Impl):
        lo, hi = im.header_toks
        t = self.toks
        i = lo + 1
        if t[i].text == '<':
            j = self._skip_angle(i, hi)
            im.generics = self.toktext(i, j)
            i = j
        # find ' for ' at angle depth 0 and 'where' at depth 0
        depth = 0
        for_i = None
        where_i = None
        k = i
        while k < hi:
            x = t[k]
            if x.kind == 'p':
                if x.text == '<':
                    depth += 1
                elif x.text == '>':
                    depth -= 1
                elif x.text == '>>':
                    depth -= 2
                elif x.text in OPEN:
                    k = self.mt[k]
            elif x.kind == 'id' and depth == 0:
                if x.text == 'for' and for_i is None and where_i is None:
                    # HRTB 'for<' only appears inside bounds (depth>0 or after where)
                    for_i = k
                elif x.text == 'where' and where_i is None:
                    where_i = k
            k += 1
        end_ty = where_i if where_i is not None else hi
        if for_i is not None:
            im.trait = self.toktext(i, for_i)
            im.selfty = self.toktext(for_i + 1, end_ty)
        else:
            im.trait = None
            im.selfty = self.toktext(i, end_ty)
        if where_i is not None:
            im.where = self.toktext(where_i, hi)


def parse_file(path):
    src = open(path).read()
    p = Parser(src)
    p.parse()
    return p


if __name__ == '__main__':
    import sys
    import collections
    p = parse_file(sys.argv[1])
    c = collections.Counter()
    nf = 0
    for it in p.items:
        c[type(it).__name__ + (':' + it.kind if isinstance(it, Other) else '')] += 1
        if isinstance(it, (Impl, Trait)):
            nf += sum(1 for f in it.items if isinstance(f, Fn))
        if isinstance(it, Fn):
            nf += 1
    print(dict(c), 'fns', nf)
    if len(sys.argv) > 2:
        for it in p.items:
            if isinstance(it, Impl) and sys.argv[2] in it.header:
                print(it.module, '|', it.generics, '|', it.trait, '|', it.selfty, '|', it.where)
