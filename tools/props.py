"""Per-property orchestration: units -> Verus/Kani -> classification -> evidence."""
import concurrent.futures as cf
import hashlib
import json
import os
import re
import sys
import time

import driver
from driver import ROOT, CACHE, Undecided
from extract import Source, ExtractError


class Infra(Exception):
    pass


TRUST = {
    'A1': 'A1 machine arithmetic treated as mathematical: the scalar type parameter S is modelled by exact reals (model R); rounding, overflow, NaN are not modelled',
    'A2': 'A2 parametricity: generic code instantiated at the model scalar behaves as at f32/f64/iN given the model operations',
    'A3': 'A3 elementary functions (sqrt, sin, cos, tan, asin, acos, atan, atan2, fmod) axiomatised by theorems of real analysis in contracts/prelude_R.rs',
    'A4': 'A4 approx scalar comparisons: reflexivity and the 1e-6 separation facts assumed in model R',
    'A5': 'A5 layout contracts of Index / AsRef assumed by Verus (proved by the C16 Kani harnesses)',
    'A6': 'A6 tools: rustc -Zunpretty=expanded, tools/extract.py + tools/rules.py (rule list in tools/RULES.md), Verus 0.2026.09.13 + Z3 (incl. smt.macro_finder preprocessing in pass B), Kani 0.68 + CBMC 6.11',
    'U': 'model U (advisory units C01u, C03u, C12u, C17u): the scalar operations + - * / % and unary - are uninterpreted functions; a function that verifies there needs no arithmetic law at all, so its contract holds for every scalar type (floats with rounding, wrapping integers); functions that do not verify there are decided in model R only',
}


def load_known():
    p = os.path.join(ROOT, 'known_findings.json')
    if not os.path.exists(p):
        return []
    return json.load(open(p)).get('findings', [])


LADDER_TIMEOUT = int(os.environ.get('VERIF_LADDER_TIMEOUT', '100'))


def focus_text(text, table, keep):
    """the unit file with every function under contract EXCEPT those in `keep`, and every lemma, marked external_body (line
    numbers unchanged): what a focused retry verifies is exactly the kept functions against the same contracts"""
    lines = text.split('\n')
    for (lo, hi, name, origin, kind) in table:
        if kind == 'fn' and name not in keep:
            lines[lo - 1] = '#[verifier::external_body] ' + lines[lo - 1]
        elif kind == 'lemma':
            for k in range(lo - 1, min(hi, len(lines))):
                if re.match(r'\s*(pub )?(broadcast )?proof fn ', lines[k]) and 'external_body' not in lines[k] and (k == 0 or 'external_body' not in lines[k - 1]):
                    lines[k] = '#[verifier::external_body] ' + lines[k]
    return '\n'.join(lines)


def run_unit(u, tier):
    try:
        text = u.emit()
    except ExtractError as e:
        raise Infra('extraction: %s' % e)
    os.makedirs(os.path.join(CACHE, 'units'), exist_ok=True)
    path = os.path.join(CACHE, 'units', '%s_%s.rs' % (u.name, u.model))
    open(path, 'w').write(text)
    n_pre, bad = driver.trusted_scan(text, u)
    if bad:
        raise Infra('trusted construct outside the prelude in generated unit %s: %s' % (u.name, bad[:5]))
    passes = ['A']
    if u.poly_texts:
        passes.append('B')
    out = {'unit': u.name, 'model': u.model, 'path': path, 'passes': {}, 'failures': [], 'infra': [],
           'functions': u.functions, 'assumed': u.assumed, 'inlined_r18': sorted(set('%s <- %s' % x for x in (u.inliner.log if getattr(u, 'inliner', None) else []))), 'trusted_prelude_items': n_pre, 'n_lemmas': len(u.lemma_texts), 'n_poly': len(u.poly_texts)}
    with cf.ThreadPoolExecutor(max_workers=2) as ex:
        def run_pass(w):
            # a pass that runs out of time (or of resources on a lemma) under the default solver seed is repeated under two
            # other seeds before it counts as undecided: nonlinear queries are seed-sensitive, the outcome 'verified' is not
            extra = tuple(getattr(u, 'verus_extra', {}).get(w, ()))
            res = driver.run_verus(path, w, 8, extra, timeout=(240 if w == 'B' else None))
            for sd in (1, 5):
                lowres = (res['raw_err'] or '').lower()
                unstable = res['rc'] == 124 or (w == 'B' and any(k in lowres for k in ('rlimit', 'resource limit')))
                if not unstable:
                    break
                res2 = driver.run_verus(path, w, 8, extra + ('--smt-option', 'smt.random_seed=%d' % sd))
                res2['cmd'] = res['cmd'] + ' ; (timed out / resource limit: repeated) ' + res2['cmd']
                res = res2
            return res
        futs = {w: ex.submit(run_pass, w) for w in passes}
        for w, fu in futs.items():
            res = fu.result()
            fails, infra = driver.classify(u, res, path)
            j = res['json'] or {}
            vr = j.get('verification-results', {})
            tm = j.get('times-ms', {})
            out['passes'][w] = {'cmd': res['cmd'], 'verified': vr.get('verified', 0), 'errors': vr.get('errors', 0),
                                'wall_s': res['wall_s'], 'smt_ms': (tm.get('smt') or {}).get('total'),
                                'n_functions_seen': len(j.get('func-details', {}) or {})}
            out['failures'] += [dict(f, unit=u.name, model=u.model, **{'pass': w}) for f in fails]
            out['infra'] += infra
    # escalation ladder: an exec-function obligation that fails under the default options is retried alone (every other
    # function and every lemma of the file taken as verified: they were, in the run above) with Z3's nonlinear arithmetic
    # enabled; only what still fails is a failure.  A semantics-preserving rewrite (commuted product, hoisted
    # subexpression) must not raise an alarm because the default linear mode cannot see through it.
    retry = [f for f in out['failures'] if f.get('pass') == 'A' and f.get('kind') == 'fn' and not f.get('canary')]
    out['escalated'] = []
    if getattr(u, 'advisory', False):
        # model U: a function that does not verify without arithmetic laws is simply not claimed here (model R decides it)
        out['advisory'] = True
        out['advisory_not_verified'] = sorted(set(f['obligation'] for f in out['failures'] if not f.get('canary')))
        ncan_a = sum(1 for t in u.table if t[4] == 'canary')
        out['canaries'] = ncan_a
        out['canaries_failed_as_expected'] = len(set(f['obligation'] for f in out['failures'] if f.get('canary')))
        if out['canaries_failed_as_expected'] != ncan_a and not out['infra']:
            out['infra'].append('vacuity canary verified in the model-U unit %s' % u.name)
        out['passes']['A']['errors'] = out['canaries_failed_as_expected']
        out['failures'] = []
        out['infra'] = [x for x in out['infra'] if 'canary' in x]
        return out
    if retry and not out['infra']:
        keep = set(f['obligation'] for f in retry)
        fpath = path[:-3] + '_focus.rs'
        open(fpath, 'w').write(focus_text(text, u.table, keep))
        still = None
        NL = ('--smt-option', 'smt.arith.solver=6', '--smt-option', 'smt.arith.nl=true')     # what Verus itself uses for by(nonlinear_arith)
        RING1 = 'broadcast use {s_mul_comm, s_add_comm};'
        RING2 = 'broadcast use {s_mul_comm, s_add_comm, s_sub_def, s_neg_neg, s_neg_add, s_mul_neg, s_mul_assoc, s_mul_add};'
        RINGS = 'broadcast use {s_mul_comm, s_add_comm, s_sub_def, s_neg_neg, s_neg_add, s_mul_neg};'
        rungs = [((), RINGS), ((), RING2), (NL, None)]
        for opts, ring in rungs:
            if ring:
                open(fpath, 'w').write(focus_text(text, u.table, keep).replace(RING1, ring))
            res = driver.run_verus(fpath, 'A', 8, tuple(getattr(u, 'verus_extra', {}).get('A', ())) + opts, timeout=LADDER_TIMEOUT)
            fails2, infra2 = driver.classify(u, res, fpath)
            if res['rc'] == 124:
                continue        # this rung ran out of time: the next one may still decide
            if res['json'] is None or any('does not compile' in x or 'verus/rustc error' in x for x in infra2):
                break
            bad = set(f['obligation'] for f in fails2 if not f.get('canary'))
            # an obligation the focused run could not decide (resource limit) stays failed
            undecided = set()
            for x in infra2:
                undecided |= set(k for k in keep if k in x)
            now_ok = keep - bad - undecided if not [x for x in infra2 if 'resource limit' in x or 'unclassified' in x] else set()
            for k in sorted(now_ok):
                out['escalated'].append({'obligation': k, 'options': (' '.join(opts) + (' + ' + ring if ring else '')).strip(), 'wall_s': res['wall_s']})
            keep -= now_ok
            out['passes']['A']['cmd'] += ' ; ' + res['cmd']
            if not keep:
                break
            open(fpath, 'w').write(focus_text(text, u.table, keep))
        ok = set(e['obligation'] for e in out['escalated'])
        out['failures'] = [f for f in out['failures'] if f.get('obligation') not in ok]
        out['passes']['A']['verified'] += len(ok)
        out['passes']['A']['errors'] -= len(ok)
    if tier == 'thorough' and not out['infra']:
        # stability: re-run pass A under two more solver seeds; an obligation that flips is unstable (exit 2), not a violation
        base = (out['passes']['A']['verified'], out['passes']['A']['errors'])
        for sd in (7, 13):
            res = driver.run_verus(path, 'A', 8, tuple(getattr(u, 'verus_extra', {}).get('A', ())) + ('--smt-option', 'smt.random_seed=%d' % sd))
            j = res['json'] or {}
            vr = j.get('verification-results', {})
            if (vr.get('verified', 0), vr.get('errors', 0)) != base:
                out['infra'].append('pass A is unstable under smt.random_seed=%d: %s verified / %s errors instead of %s / %s' % (
                    sd, vr.get('verified'), vr.get('errors'), base[0], base[1]))
        out['stability_seeds'] = [7, 13]
    # canaries: each must FAIL
    ncan = sum(1 for t in u.table if t[4] == 'canary')
    failed_can = set(f['obligation'] for f in out['failures'] if f.get('canary'))
    out['canaries'] = ncan
    out['canaries_failed_as_expected'] = len(failed_can)
    if len(failed_can) != ncan and not out['infra']:
        names = set(t[2] for t in u.table if t[4] == 'canary') - failed_can
        out['infra'].append('vacuity canary verified (contradictory precondition or axiom set?): %s' % sorted(names))
    out['failures'] = [f for f in out['failures'] if not f.get('canary')]
    return out


def run(prop, tier, seed):
    import units
    if prop not in units.UNITS and prop not in getattr(units, 'KANI', {}):
        raise Infra('no check registered for %s' % prop)
    result = {'units': [], 'kani': None, 'infra': [], 'failures': []}
    if prop in units.UNITS:
        exp = driver.expand()
        try:
            src = Source(exp)
        except Exception as e:
            raise Infra('cannot parse the expansion: %s' % e)
        try:
            ulist = units.UNITS[prop](src, tier)
        except ExtractError as e:
            raise Infra('extraction: %s' % e)
        with cf.ThreadPoolExecutor(max_workers=2) as ex:
            def safe(u):
                # a unit that cannot be extracted (unsupported construct, lost anchor) is undecided; the other units and the
                # Kani groups of the property still run, and what they report is reported
                try:
                    return run_unit(u, tier)
                except Infra as e:
                    return {'unit': u.name, 'model': u.model, 'path': None, 'passes': {}, 'failures': [], 'infra': ['unit %s: %s' % (u.name, e)],
                            'functions': [], 'assumed': [], 'canaries': 0, 'canaries_failed_as_expected': 0, 'n_lemmas': 0, 'n_poly': 0,
                            'trusted_prelude_items': 0, 'escalated': []}
            for r in ex.map(safe, ulist):
                result['units'].append(r)
                result['failures'] += r['failures']
                result['infra'] += r['infra']
    if prop in getattr(units, 'KANI', {}):
        import kani_driver
        k = kani_driver.run(prop, tier, seed)
        result['kani'] = k
        result['failures'] += k['failures']
        result['infra'] += k['infra']
    return result


def finish(prop, tier, seed, result, evid_path):
    import units
    known = [k for k in load_known() if k.get('property') == prop and k.get('status') == 'open']
    violations = []
    known_hits = []
    seen_ob = set()
    uniq = []
    for f in result['failures']:
        if f.get('obligation') in seen_ob:
            continue
        seen_ob.add(f.get('obligation'))
        uniq.append(f)
    for f in uniq:
        hit = None
        for k in known:
            if k.get('obligation') == f.get('obligation'):
                hit = k
        if hit:
            known_hits.append((hit, f))
        else:
            violations.append(f)
    # minimum obligation counts (vacuity guard)
    meta = units.META.get(prop, {})
    n_obl = 0
    n_dis = 0
    cmds = []
    smt_ms = 0
    nfun = 0
    for r in result['units']:
        for w, p in r['passes'].items():
            n_obl += p['verified'] + p['errors'] - (r['canaries_failed_as_expected'] if w == 'A' else 0)
            n_dis += p['verified']
            cmds.append(p['cmd'])
            smt_ms += p['smt_ms'] or 0
        if not r.get('advisory'):
            nfun += len(r['functions'])      # the model-U twin verifies the same functions again: not counted twice
    bounded = []
    if result['kani']:
        k = result['kani']
        n_obl += k['n_proof']
        n_dis += k['n_proof_ok']
        cmds += k['cmds']
        bounded = k['bounded']
    if not result['infra'] and not result['failures']:
        mn = meta.get('min_obligations', 1)
        if n_obl < mn:
            result['infra'].append('obligation count %d below the committed minimum %d (lost anchors?)' % (n_obl, mn))
    samples = []
    for r in result['units']:
        for fn in r['functions'][:1] + r['functions'][len(r['functions']) // 2:len(r['functions']) // 2 + 2]:
            samples.append({'obligation': fn['anchor'], 'origin': fn['origin'], 'requires': fn['requires'], 'ensures': fn['ensures'], 'model': r['model']})
    if result['kani']:
        samples += result['kani'].get('samples', [])[:3]
    evidence = {
        'property_id': prop, 'tier': tier, 'seed': seed, 'level': 'proof',
        'coverage': {
            'obligations': n_obl, 'discharged': n_dis,
            'checker_cmd': ' ; '.join(cmds)[:4000],
            'trusted_base': [TRUST[a] for a in meta.get('trust', ['A1', 'A2', 'A6'])] + meta.get('trust_extra', []),
            'samples': samples,
            'functions_under_contract': nfun,
            'contracts_assumed_from_other_units': sorted(set(a['anchor'] for r in result['units'] for a in r.get('assumed', []))),
            'functions': [dict(anchor=fn['anchor'], origin=fn['origin'], body=fn['body_sha256_16'], unit=r['unit'], model=r['model'])
                          for r in result['units'] for fn in r['functions']],
            'per_unit': [{k: r[k] for k in ('unit', 'model', 'passes', 'canaries', 'canaries_failed_as_expected', 'n_lemmas', 'n_poly', 'trusted_prelude_items', 'inlined_r18', 'advisory', 'advisory_not_verified') if k in r} for r in result['units']],
            'escalated_obligations': [dict(e, unit=r['unit']) for r in result['units'] for e in r.get('escalated', [])],
            'solver_time_s': round(smt_ms / 1000.0, 2),
            'kani': ({k: v for k, v in result['kani'].items() if k not in ('failures', 'infra', 'samples')} if result['kani'] else None),
            'bounded_obligations': bounded,
            'undecided_clauses': meta.get('undecided', []),
            'explanation': meta.get('explanation', ''),
        },
        'assumptions': [TRUST[a] for a in meta.get('trust', ['A1', 'A2', 'A6'])] + meta.get('assumptions', []),
        'wall_s': result.get('wall_s', 0.0),
        'violations': len(violations),
    }
    code = 0
    if result['infra'] and not violations:
        for m in result['infra'][:10]:
            print('UNDECIDED property=%s: %s' % (prop, m.strip()[:1200]))
        # no evidence written for an undecided run: nothing was established
        return 2
    for hit, f in known_hits:
        print('KNOWN-FINDING: property=%s %s' % (prop, hit.get('what', hit.get('obligation'))))
    if violations:
        os.makedirs(os.path.join(ROOT, 'replays'), exist_ok=True)
        real = []
        for i, f in enumerate(violations):
            found = None
            try:
                if f.get('kani_harness'):
                    import kani_driver
                    pb = kani_driver.playback(f['kani_harness'], f.get('kani_args', ()))
                    found = {'input': pb, 'kind': 'kani concrete playback (unit test with the counterexample bytes)'} if pb else {'input': None}
                else:
                    import replay
                    found = replay.search(prop, f, seed, tier)
            except Exception as e:      # the search is best-effort; the violation is reported regardless
                found = {'input': None, 'error': 'replay search failed: %r' % (e,)}
            tags = set((found or {}).get('tags', []))
            full = found and not found.get('clauses_skipped') and found.get('agree_points', 0) >= 100
            poly = full and found.get('branch_free') and found.get('unguarded')
            # triage (DESIGN 0.7): a failed proof is downgraded to UNDECIDED only when (a) every ensures clause was evaluated on
            # the real code, (b) the function is branch-free (no if / match / && / || / ? / loops after inlining) and its clauses
            # are unguarded, so that the real function is one polynomial / rational / elementary expression of its inputs and
            # agreement on >= 100 random points is a Schwartz-Zippel argument for identity.  Functions with branches are
            # never downgraded: a defect confined to a thin set (a threshold, a degenerate case) is exactly what random
            # points miss.
            if found and found.get('input') is None and poly:
                # Schwartz-Zippel style triage (DESIGN 2.5): the real function still equals the spec function on every sampled
                # point, so the failed proof of this hinted / reference-formula obligation is brittleness, not a violation
                result['infra'].append('proof of %s failed but the real code agrees with its spec function on %d random points: undecided (proof brittleness), not a violation' % (
                    f.get('obligation'), found['agree_points']))
                continue
            real.append((f, found))
        for i, (f, found) in enumerate(real):
            rp = os.path.join(ROOT, 'replays', '%s-%d.json' % (prop, i))
            doc = {'property': prop, 'obligation': f.get('obligation'), 'origin': f.get('origin'),
                   'verifier': 'verus' if 'pass' in f else 'kani', 'unit': f.get('unit'), 'model': f.get('model'),
                   'message': f.get('message'), 'verifier_output': f.get('rendered'), 'replay': found}
            json.dump(doc, open(rp, 'w'), indent=1)
            tail = '' if (found and found.get('input') is not None) else ' no-failing-input-found'
            print('failed obligation: %s (%s): %s' % (f.get('obligation'), f.get('origin'), f.get('message')))
            if found and found.get('input') is not None and 'values' in found:
                print('  failing input on the real code: %s  component %s: got %s, spec %s' % (found['input'], found.get('component'), found.get('got'), found.get('want')))
            print('VIOLATION property=%s replay=%s%s' % (prop, rp, tail))
        violations = [f for f, _ in real]
        evidence['violations'] = len(violations)
        if violations:
            code = 1
        elif result['infra']:
            for m in result['infra'][:10]:
                print('UNDECIDED property=%s: %s' % (prop, m.strip()[:1200]))
            return 2
    json.dump(evidence, open(evid_path, 'w'), indent=1)
    if code == 0:
        print('OK property=%s tier=%s obligations=%d discharged=%d functions_under_contract=%d wall=%.1fs' % (
            prop, tier, n_obl, n_dis, nfun, result.get('wall_s', 0)))
    return code


def replay(prop, path):
    import replay as rp
    return rp.replay_file(prop, path)
