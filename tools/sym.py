"""Tiny symbolic layer used to *generate* the spec library and the law lemmas.

Every value carries two renderings:
  .spec : Verus spec-level text over the model scalar `Sc` (s_add(..), v3_dot(..) ...)
  .flat : the same quantity written out as a polynomial/rational expression over
          plain `real` variables (used by the pass-B lemmas, which must be flat)

Spec functions are defined once, in Python, by a function over these values; the
Verus definition text and the flat form are both produced by running that one
definition, so they cannot drift apart.
"""
import itertools

_MODE = ['call']


class R:
    """a scalar"""
    __slots__ = ('spec', 'flat', 'ast')

    def __init__(self, spec, flat, ast=None):
        self.spec = spec
        self.flat = flat
        self.ast = ast if ast is not None else ('var', flat)

    @staticmethod
    def lit(n):
        n = str(n)
        if n == '0':
            return R('s_zero()', '0real', ('lit', '0'))
        if n == '1':
            return R('s_one()', '1real', ('lit', '1'))
        return R('s_lit(%sreal)' % n, '%sreal' % n, ('lit', n))

    def _bin(self, o, fn, op):
        o = lift(o)
        return R('%s(%s, %s)' % (fn, self.spec, o.spec), '(%s %s %s)' % (self.flat, op, o.flat), ('op', op, self.ast, o.ast))

    def __add__(self, o): return self._bin(o, 's_add', '+')
    def __sub__(self, o): return self._bin(o, 's_sub', '-')
    def __mul__(self, o): return self._bin(o, 's_mul', '*')
    def __truediv__(self, o): return self._bin(o, 's_div', '/')
    def __mod__(self, o):
        o = lift(o)
        return R('s_rem(%s, %s)' % (self.spec, o.spec), 'r_rem(%s, %s)' % (self.flat, o.flat), ('fn', 'r_rem', [self.ast, o.ast]))
    def __neg__(self): return R('s_neg(%s)' % self.spec, '(0real - %s)' % self.flat, ('op', '-', ('lit', '0'), self.ast))
    def __radd__(self, o): return lift(o) + self
    def __rsub__(self, o): return lift(o) - self
    def __rmul__(self, o): return lift(o) * self


def lift(x):
    if isinstance(x, R):
        return x
    if isinstance(x, int):
        return R.lit(x)
    raise TypeError(x)


class Struct:
    """base of compound symbolic values; subclasses set TYPE (Verus type text) and FIELDS [(name, cls)]"""
    TYPE = ''
    FIELDS = []

    def __init__(self, *vals, spec=None):
        assert len(vals) == len(self.FIELDS), (self.TYPE, len(vals))
        for (fn, cls), v in zip(self.FIELDS, vals):
            if cls is R:
                v = lift(v)
            setattr(self, fn, v)
        if spec is None:
            ctor = self.TYPE.split('<')[0]
            spec = '(%s { %s })' % (ctor, ', '.join('%s: %s' % (fn, getattr(self, fn).spec) for fn, _ in self.FIELDS))
        self.spec = spec

    @classmethod
    def var(cls, name, flatname=None):
        """a variable of this type: fields are projections"""
        flatname = flatname or name
        vals = []
        for fn, fc in cls.FIELDS:
            if fc is R:
                vals.append(R('%s.%s' % (name, fn), '%s_%s' % (flatname, fn)))
            else:
                vals.append(fc.var('%s.%s' % (name, fn), '%s_%s' % (flatname, fn)))
        return cls(*vals, spec=name)

    def leaves(self):
        out = []
        for fn, fc in self.FIELDS:
            v = getattr(self, fn)
            if fc is R:
                out.append(v)
            else:
                out.extend(v.leaves())
        return out

    def with_spec(self, spec):
        """same components, but named by `spec` (projection specs rewritten)"""
        vals = []
        for fn, fc in self.FIELDS:
            v = getattr(self, fn)
            if fc is R:
                vals.append(R('%s.%s' % (spec, fn), v.flat, v.ast))
            else:
                vals.append(v.with_spec('%s.%s' % (spec, fn)))
        return type(self)(*vals, spec=spec)


def with_spec(v, spec):
    if isinstance(v, R):
        return R(spec, v.flat, v.ast)
    if isinstance(v, B):
        return B(spec, v.flat, v.ast)
    return v.with_spec(spec)


class B:
    """a boolean"""
    def __init__(self, spec, flat, ast=None):
        self.spec = spec
        self.flat = flat
        self.ast = ast if ast is not None else ('bvar', flat)

    def __and__(self, o): return B('(%s && %s)' % (self.spec, o.spec), '(%s && %s)' % (self.flat, o.flat), ('and', self.ast, o.ast))
    def __or__(self, o): return B('(%s || %s)' % (self.spec, o.spec), '(%s || %s)' % (self.flat, o.flat), ('or', self.ast, o.ast))
    def __invert__(self): return B('!(%s)' % self.spec, '!(%s)' % self.flat, ('not', self.ast))


def s_eq(a, b):
    a, b = lift(a), lift(b)
    return B('s_eq(%s, %s)' % (a.spec, b.spec), '(%s == %s)' % (a.flat, b.flat), ('cmp', '==', a.ast, b.ast))


def s_lt(a, b):
    a, b = lift(a), lift(b)
    return B('s_lt(%s, %s)' % (a.spec, b.spec), '(%s < %s)' % (a.flat, b.flat), ('cmp', '<', a.ast, b.ast))


def s_le(a, b):
    a, b = lift(a), lift(b)
    return B('s_le(%s, %s)' % (a.spec, b.spec), '(%s <= %s)' % (a.flat, b.flat), ('cmp', '<=', a.ast, b.ast))


TYPE_TEXT = {R: 'Sc', B: 'bool'}


def type_text(cls):
    return TYPE_TEXT.get(cls) or cls.TYPE


class SpecLib:
    """registry of generated spec functions"""

    def __init__(self):
        self.defs = []      # (name, text)
        self.names = set()

    def fn(self, name, argtypes, rettype, argnames=None):
        """decorator: define spec fn `name` by a Python function over symbolic values"""
        lib = self

        def deco(pyfn):
            an = argnames or list(pyfn.__code__.co_varnames[:len(argtypes)])
            # definition text
            formal = []
            for nm, ty in zip(an, argtypes):
                if ty is R:
                    formal.append(R(nm, nm))
                elif ty is B:
                    formal.append(B(nm, nm))
                else:
                    formal.append(ty.var(nm))
            body = pyfn(*formal)
            text = 'pub open spec fn %s(%s) -> %s { %s }\n' % (
                name, ', '.join('%s: %s' % (nm, type_text(ty)) for nm, ty in zip(an, argtypes)),
                type_text(rettype), body.spec)
            assert name not in lib.names, name
            lib.names.add(name)
            lib.defs.append((name, text))

            def call(*args):
                args = [lift(a) if t is R else a for a, t in zip(args, argtypes)]
                res = pyfn(*args)
                return with_spec(res, '%s(%s)' % (name, ', '.join(a.spec for a in args)))
            call.__name__ = name
            call.pyfn = pyfn
            return call
        return deco

    def text(self, only=None):
        return ''.join(t for n, t in self.defs if only is None or n in only)


# ---------------------------------------------------------------------------
# law lemmas

LAW_REGISTRY = {}      # name -> (pass-A text, pass-B text) of every rendered Law (emit includes the ones a hint calls)


class Law:
    """ensures statements over symbolic values; generates a flat pass-B lemma and a pass-A lemma calling it."""

    def __init__(self, name, params, hyps=None):
        """params: [(name, cls)]"""
        self.name = name
        self.params = params
        self.vars = []
        for nm, cls in params:
            if cls is R:
                self.vars.append(R(nm, nm))
            else:
                self.vars.append(cls.var(nm))
        self.concl = []     # list of (spec_stmt, [flat_stmt...])
        self.hyps = []      # (spec_stmt, flat_stmt)
        self.steps = []     # extra flat asserts (certificates) before conclusions
        self.direct = False

    def atoms(self):
        """[(flat param name, call argument text)]"""
        out = []
        for (nm, cls), v in zip(self.params, self.vars):
            if cls is R:
                out.append((nm, nm + '@'))
            else:
                for leaf in v.leaves():
                    out.append((leaf.flat, leaf.spec + '@'))
        return out

    def require(self, b: B):
        self.hyps.append((b.spec, b.flat))

    def require_flat(self, spec, flat):
        self.hyps.append((spec, flat))

    def eq(self, a, b):
        """a == b (same type)"""
        if isinstance(a, R) or isinstance(b, R):
            a, b = lift(a), lift(b)
            self.concl.append(('%s == %s' % (a.spec, b.spec), ['%s == %s' % (a.flat, b.flat)]))
        else:
            la, lb = a.leaves(), b.leaves()
            assert len(la) == len(lb)
            self.concl.append(('%s == %s' % (a.spec, b.spec), ['%s == %s' % (x.flat, y.flat) for x, y in zip(la, lb)]))

    def holds(self, b: B):
        self.concl.append((b.spec, [b.flat]))

    def render_assumed(self, home):
        """statement only (external_body): the law is proved in unit `home`"""
        pa = '#[verifier::external_body] // ASSUMED-CONTRACT (law proved in unit %s)\npub proof fn law_%s(%s)\n' % (
            home, self.name, ', '.join('%s: %s' % (nm, type_text(cls)) for nm, cls in self.params))
        if self.hyps:
            pa += '    requires ' + ',\n        '.join(h[0] for h in self.hyps) + ',\n'
        pa += '    ensures ' + ',\n        '.join(c[0] for c in self.concl) + ',\n{\n}\n'
        return pa

    def render(self):
        atoms = self.atoms()
        pname = 'p_' + self.name
        flat_params = ', '.join('%s: real' % a for a, _ in atoms)
        flat_req = [h[1] for h in self.hyps]
        flat_ens = [s for _, fl in self.concl for s in fl]
        pb = 'pub proof fn %s(%s)\n' % (pname, flat_params)
        if flat_req:
            pb += '    requires ' + ',\n        '.join(flat_req) + ',\n'
        pb += '    ensures ' + ',\n        '.join(flat_ens) + ',\n{\n'
        done = []
        for s in self.steps:
            pre = flat_req + done
            if pre:
                pb += '    assert(%s) by(nonlinear_arith) requires %s;\n' % (s, ', '.join(pre))
            else:
                pb += '    assert(%s) by(nonlinear_arith);\n' % s
            done.append(s)
        for s in flat_ens:
            if flat_req or self.steps:
                pb += '    assert(%s) by(nonlinear_arith) requires %s;\n' % (s, ', '.join(flat_req + self.steps))
            else:
                pb += '    assert(%s) by(nonlinear_arith);\n' % s
        pb += '}\n'
        pa = 'pub proof fn law_%s(%s)\n' % (self.name, ', '.join('%s: %s' % (nm, type_text(cls)) for nm, cls in self.params))
        if self.hyps:
            pa += '    requires ' + ',\n        '.join(h[0] for h in self.hyps) + ',\n'
        pa += '    ensures ' + ',\n        '.join(c[0] for c in self.concl) + ',\n{\n'
        pa += '    poly::%s(%s);\n' % (pname, ', '.join(c for _, c in atoms))
        pa += '}\n'
        LAW_REGISTRY[self.name] = (pa, pb)
        return pa, pb


# ---------------------------------------------------------------------------
# certified laws: identities under hypotheses and/or with divisions (certificates authored by sympy, checked by Z3)

import hashlib as _hashlib
import json as _json
import os as _os
import re as _re
import subprocess as _subprocess

_ROOT = _os.path.dirname(_os.path.dirname(_os.path.abspath(__file__)))
_CERT_FILE = _os.path.join(_ROOT, 'contracts', 'certs.json')
_CERT_LOCAL = _os.path.join(_ROOT, '.cache', 'certs_local.json')
_cert_cache = None


def _load_certs():
    global _cert_cache
    if _cert_cache is None:
        _cert_cache = {}
        for p in (_CERT_FILE, _CERT_LOCAL):
            if _os.path.exists(p):
                try:
                    _cert_cache.update(_json.load(open(p)))
                except Exception:
                    pass
    return _cert_cache


def get_cert(req):
    key = _hashlib.sha256(_json.dumps(req, sort_keys=True).encode()).hexdigest()[:24]
    cache = _load_certs()
    if key in cache:
        return cache[key]
    p = _subprocess.run(['python3-vt', _os.path.join(_ROOT, 'tools', 'certs.py')], input=_json.dumps(req),
                        capture_output=True, text=True, timeout=1800)
    try:
        ans = _json.loads(p.stdout)
    except Exception:
        ans = {'error': 'certs.py failed: ' + (p.stderr or p.stdout)[-500:]}
    cache[key] = ans
    if 'error' not in ans:
        local = {}
        if _os.path.exists(_CERT_LOCAL):
            try:
                local = _json.load(open(_CERT_LOCAL))
            except Exception:
                local = {}
        local[key] = ans
        _os.makedirs(_os.path.dirname(_CERT_LOCAL), exist_ok=True)
        _json.dump(local, open(_CERT_LOCAL, 'w'))
    return ans


def ast_text(a, repl=None):
    """flat text of an AST; `repl` maps the flat text of a node to a replacement symbol"""
    k = a[0]
    if k == 'var':
        return a[1]
    if k == 'lit':
        return a[1] + 'real'
    if k == 'op':
        t = '(%s %s %s)' % (ast_text(a[2]), a[1], ast_text(a[3]))
        if repl is not None and t in repl:
            return repl[t]
        return '(%s %s %s)' % (ast_text(a[2], repl), a[1], ast_text(a[3], repl))
    if k == 'fn':
        t = '%s(%s)' % (a[1], ', '.join(ast_text(x) for x in a[2]))
        if repl is not None and t in repl:
            return repl[t]
        return '%s(%s)' % (a[1], ', '.join(ast_text(x, repl) for x in a[2]))
    raise ValueError(a)


def _listify(a):
    if isinstance(a, tuple):
        return [_listify(x) for x in a]
    if isinstance(a, list):
        return [_listify(x) for x in a]
    return a


HELPER_LEMMAS = '''
pub proof fn lemma_div_mul(x: real, d: real) requires d != 0real ensures d * (x / d) == x { assert(d * (x / d) == x) by(nonlinear_arith) requires d != 0real; }
pub proof fn lemma_mul_zero(k: real, h: real) requires h == 0real ensures k * h == 0real { assert(k * h == 0real) by(nonlinear_arith) requires h == 0real; }
pub proof fn lemma_mul_nonzero(a: real, b: real) requires a != 0real, b != 0real ensures a * b != 0real { assert(a * b != 0real) by(nonlinear_arith) requires a != 0real, b != 0real; }
pub proof fn lemma_cancel(c: real, y: real) requires c * y == 0real, c != 0real ensures y == 0real { assert(y == 0real) by(nonlinear_arith) requires c * y == 0real, c != 0real; }
'''


class CertLaw(Law):
    """a Law whose conclusions hold under polynomial hypotheses and/or contain divisions"""

    def __init__(self, name, params):
        super().__init__(name, params)
        self.eq_hyps = []      # (R, R)
        self.nz_hyps = []      # R
        self.goals = []        # (R, R, spec_stmt)
        self.extra_requires = []   # (spec, flat) not used by the certificate (e.g. inequalities)

    def require_eq(self, a, b):
        a, b = lift(a), lift(b)
        self.eq_hyps.append((a, b))

    def require_nonzero(self, a):
        self.nz_hyps.append(lift(a))

    def eq(self, a, b):
        if isinstance(a, R) or isinstance(b, R):
            a, b = lift(a), lift(b)
            self.goals.append(([(a, b)], '%s == %s' % (a.spec, b.spec)))
        else:
            la, lb = a.leaves(), b.leaves()
            self.goals.append((list(zip(la, lb)), '%s == %s' % (a.spec, b.spec)))

    def render_assumed(self, home):
        """statement only (external_body): header of the struct-level lemma `law_<name>` as render() prints it"""
        pa, _ = self.render()
        i = pa.index('pub proof fn law_%s(' % self.name)
        j = pa.index('\n{\n', i)
        return '#[verifier::external_body] // ASSUMED-CONTRACT (law proved in unit %s)\n%s\n{\n}\n' % (home, pa[i:j])

    def to_views(self, flat):
        m = dict(self.atoms())
        return _re.sub(r'[A-Za-z_][A-Za-z0-9_]*', lambda mo: m.get(mo.group(0), mo.group(0)), flat)

    def render(self):
        pairs = [p for g, _ in self.goals for p in g]
        req = {'goals': [[_listify(a.ast), _listify(b.ast)] for a, b in pairs],
               'hyps': [[_listify(a.ast), _listify(b.ast)] for a, b in self.eq_hyps]}
        cert = get_cert(req)
        if 'error' in cert:
            raise RuntimeError('no certificate for law %s: %s' % (self.name, cert['error']))
        atoms = self.atoms()
        quots = cert['quotients']
        fns = cert['fns']
        repl = {q['text']: q['sym'] for q in quots}
        repl.update({f['text']: f['sym'] for f in fns})
        inst = {q['sym']: q['text'] for q in quots}
        inst.update({f['sym']: f['text'] for f in fns})

        def instantiate(t):
            return _re.sub(r'[qf][0-9]+_', lambda mo: inst[mo.group(0)], t)
        # AST lookup for quotient nodes: walk all asts
        node_of = {}

        def walk(a):
            if a[0] == 'op':
                node_of[ast_text(a)] = a
                walk(a[2]); walk(a[3])
            elif a[0] == 'fn':
                node_of[ast_text(a)] = a
                for x in a[2]:
                    walk(x)
        for a, b in pairs + self.eq_hyps:
            walk(a.ast); walk(b.ast)
        for d in self.nz_hyps:
            walk(d.ast)
        qinfo = []
        for q in quots:
            node = node_of[q['text']]
            qinfo.append({'sym': q['sym'], 'text': q['text'],
                          'X': ast_text(node[2]), 'D': ast_text(node[3]),
                          'Xs': ast_text(node[2], repl), 'Ds': ast_text(node[3], repl)})
        # ---- pass B: the pure identities
        pparams = [a for a, _ in atoms] + [f['sym'] for f in fns] + [q['sym'] for q in quots]
        idents = []
        per_goal = []
        hyp_s = ['(%s - %s)' % (ast_text(a.ast, repl), ast_text(b.ast, repl)) for a, b in self.eq_hyps]
        for (a, b), g in zip(pairs, cert['goals']):
            Ls, Rs = ast_text(a.ast, repl), ast_text(b.ast, repl)
            # c as a product of denominator texts
            cfac = []
            terms = []
            for qi in qinfo:
                if qi['sym'] in g['qcof']:
                    terms.append(('(%s)' % g['qcof'][qi['sym']], '((%s * %s) - %s)' % (qi['Ds'], qi['sym'], qi['Xs'])))
            for hc, hs in zip(g['hcof'], hyp_s):
                if hc != '0real':
                    terms.append(('(%s)' % hc, hs))
            c = g['c']
            ident = '%s * (%s - %s) == %s' % (c, Ls, Rs, ' + '.join('%s * %s' % t for t in terms) if terms else '0real')
            idents.append(ident)
            per_goal.append((c, Ls, Rs, terms, g))
        pb = ''
        for k, ident in enumerate(idents):
            pb += 'pub proof fn p_%s_id%d(%s)\n    ensures %s,\n{\n    assert(%s) by(nonlinear_arith);\n}\n' % (
                self.name, k, ', '.join(p + ': real' for p in pparams), ident, ident)
        # ---- pass A: flat lemma over reals
        flat_req = ['%s == %s' % (a.flat, b.flat) for a, b in self.eq_hyps]
        dens = []
        for qi in qinfo:
            if qi['D'] not in dens:
                dens.append(qi['D'])
        given_nz = [d.flat for d in self.nz_hyps]
        for d in dens:
            if d not in given_nz:
                given_nz.append(d)
        flat_req += ['%s != 0real' % d for d in given_nz]
        flat_req += [f for _, f in self.extra_requires]
        flat_ens = ['%s == %s' % (a.flat, b.flat) for a, b in pairs]
        fa = 'pub proof fn flat_%s(%s)\n' % (self.name, ', '.join(a + ': real' for a, _ in atoms))
        if flat_req:
            fa += '    requires ' + ',\n        '.join(flat_req) + ',\n'
        fa += '    ensures ' + ',\n        '.join(flat_ens) + ',\n{\n'
        for qi in qinfo:
            fa += '    lemma_div_mul(%s, %s);\n' % (qi['X'], qi['D'])
        for k in range(len(idents)):
            fa += '    poly::p_%s_id%d(%s);\n' % (self.name, k, ', '.join([a for a, _ in atoms] + [f['text'] for f in fns] + [q['text'] for q in quots]))
        for (c, Ls, Rs, terms, g) in per_goal:
            for k, h in terms:
                fa += '    lemma_mul_zero(%s, %s);\n' % (instantiate(k), instantiate(h))
            ci = instantiate(c)
            Li, Ri = instantiate(Ls), instantiate(Rs)
            if c.strip() == '1real':
                fa += '    assert(1real * (%s - %s) == (%s - %s));\n' % (Li, Ri, Li, Ri) if False else ''
                fa += '    assert(%s == %s);\n' % (Li, Ri)
            else:
                fa += '    assert(%s * (%s - %s) == 0real);\n' % (ci, Li, Ri)
                fa += '    assert(%s != 0real) by(nonlinear_arith) requires %s;\n' % (ci, ', '.join('%s != 0real' % d for d in given_nz))
                fa += '    lemma_cancel(%s, (%s - %s));\n' % (ci, Li, Ri)
        fa += '}\n'
        # ---- pass A: struct-level law
        pa = 'pub proof fn law_%s(%s)\n' % (self.name, ', '.join('%s: %s' % (nm, type_text(cls)) for nm, cls in self.params))
        spec_req = [self.to_views(r) for r in flat_req]
        if spec_req:
            pa += '    requires ' + ',\n        '.join(spec_req) + ',\n'
        pa += '    ensures ' + ',\n        '.join(s for _, s in self.goals) + ',\n{\n'
        pa += '    flat_%s(%s);\n}\n' % (self.name, ', '.join(c for _, c in atoms))
        return fa + pa, pb


def ite(c, a, b):
    """if c { a } else { b } on scalars"""
    a, b = lift(a), lift(b)
    return R('(if %s { %s } else { %s })' % (c.spec, a.spec, b.spec), '(if %s { %s } else { %s })' % (c.flat, a.flat, b.flat),
             ('ite', c.ast, a.ast, b.ast))


def s_gt(a, b):
    return s_lt(b, a)


def s_ge(a, b):
    return s_le(b, a)


def struct_ite(c, a, b):
    """if c { a } else { b } on structs of the same class"""
    cls = type(a)
    vals = []
    for fn, fc in cls.FIELDS:
        x, y = getattr(a, fn), getattr(b, fn)
        vals.append(ite(c, x, y) if fc is R else struct_ite(c, x, y))
    return cls(*vals, spec='(if %s { %s } else { %s })' % (c.spec, a.spec, b.spec))
