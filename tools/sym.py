"""Tiny symbolic layer used to *generate* the spec library and the law lemmas.

Every value carries two renderings:
  .spec : Verus spec-level text over the model scalar `Sc` (s_add(..), v3_dot(..) ...)
  .flat : the same quantity written out as a polynomial/rational expression over
          plain `real` variables (used by the pass-B lemmas, which must be flat)

Spec functions are defined once, in Python, by a function over these values; the
Verus definition text and the flat form are both produced by running that one
definition, so they cannot drift apart.
"""
import itertools

_MODE = ['call']


class R:
    """a scalar"""
    __slots__ = ('spec', 'flat')

    def __init__(self, spec, flat):
        self.spec = spec
        self.flat = flat

    @staticmethod
    def lit(n):
        n = str(n)
        if n == '0':
            return R('s_zero()', '0real')
        if n == '1':
            return R('s_one()', '1real')
        return R('s_lit(%sreal)' % n, '%sreal' % n)

    def _bin(self, o, fn, op):
        o = lift(o)
        return R('%s(%s, %s)' % (fn, self.spec, o.spec), '(%s %s %s)' % (self.flat, op, o.flat))

    def __add__(self, o): return self._bin(o, 's_add', '+')
    def __sub__(self, o): return self._bin(o, 's_sub', '-')
    def __mul__(self, o): return self._bin(o, 's_mul', '*')
    def __truediv__(self, o): return self._bin(o, 's_div', '/')
    def __mod__(self, o):
        o = lift(o)
        return R('s_rem(%s, %s)' % (self.spec, o.spec), 'r_rem(%s, %s)' % (self.flat, o.flat))
    def __neg__(self): return R('s_neg(%s)' % self.spec, '(0real - %s)' % self.flat)
    def __radd__(self, o): return lift(o) + self
    def __rsub__(self, o): return lift(o) - self
    def __rmul__(self, o): return lift(o) * self


def lift(x):
    if isinstance(x, R):
        return x
    if isinstance(x, int):
        return R.lit(x)
    raise TypeError(x)


class Struct:
    """base of compound symbolic values; subclasses set TYPE (Verus type text) and FIELDS [(name, cls)]"""
    TYPE = ''
    FIELDS = []

    def __init__(self, *vals, spec=None):
        assert len(vals) == len(self.FIELDS), (self.TYPE, len(vals))
        for (fn, cls), v in zip(self.FIELDS, vals):
            if cls is R:
                v = lift(v)
            setattr(self, fn, v)
        if spec is None:
            ctor = self.TYPE.split('<')[0]
            spec = '(%s { %s })' % (ctor, ', '.join('%s: %s' % (fn, getattr(self, fn).spec) for fn, _ in self.FIELDS))
        self.spec = spec

    @classmethod
    def var(cls, name, flatname=None):
        """a variable of this type: fields are projections"""
        flatname = flatname or name
        vals = []
        for fn, fc in cls.FIELDS:
            if fc is R:
                vals.append(R('%s.%s' % (name, fn), '%s_%s' % (flatname, fn)))
            else:
                vals.append(fc.var('%s.%s' % (name, fn), '%s_%s' % (flatname, fn)))
        return cls(*vals, spec=name)

    def leaves(self):
        out = []
        for fn, fc in self.FIELDS:
            v = getattr(self, fn)
            if fc is R:
                out.append(v)
            else:
                out.extend(v.leaves())
        return out

    def with_spec(self, spec):
        """same components, but named by `spec` (projection specs rewritten)"""
        vals = []
        for fn, fc in self.FIELDS:
            v = getattr(self, fn)
            if fc is R:
                vals.append(R('%s.%s' % (spec, fn), v.flat))
            else:
                vals.append(v.with_spec('%s.%s' % (spec, fn)))
        return type(self)(*vals, spec=spec)


def with_spec(v, spec):
    if isinstance(v, R):
        return R(spec, v.flat)
    if isinstance(v, B):
        return B(spec, v.flat)
    return v.with_spec(spec)


class B:
    """a boolean"""
    def __init__(self, spec, flat):
        self.spec = spec
        self.flat = flat

    def __and__(self, o): return B('(%s && %s)' % (self.spec, o.spec), '(%s && %s)' % (self.flat, o.flat))
    def __or__(self, o): return B('(%s || %s)' % (self.spec, o.spec), '(%s || %s)' % (self.flat, o.flat))
    def __invert__(self): return B('!(%s)' % self.spec, '!(%s)' % self.flat)


def s_eq(a, b):
    a, b = lift(a), lift(b)
    return B('s_eq(%s, %s)' % (a.spec, b.spec), '(%s == %s)' % (a.flat, b.flat))


def s_lt(a, b):
    a, b = lift(a), lift(b)
    return B('s_lt(%s, %s)' % (a.spec, b.spec), '(%s < %s)' % (a.flat, b.flat))


def s_le(a, b):
    a, b = lift(a), lift(b)
    return B('s_le(%s, %s)' % (a.spec, b.spec), '(%s <= %s)' % (a.flat, b.flat))


TYPE_TEXT = {R: 'Sc', B: 'bool'}


def type_text(cls):
    return TYPE_TEXT.get(cls) or cls.TYPE


class SpecLib:
    """registry of generated spec functions"""

    def __init__(self):
        self.defs = []      # (name, text)
        self.names = set()

    def fn(self, name, argtypes, rettype, argnames=None):
        """decorator: define spec fn `name` by a Python function over symbolic values"""
        lib = self

        def deco(pyfn):
            an = argnames or list(pyfn.__code__.co_varnames[:len(argtypes)])
            # definition text
            formal = []
            for nm, ty in zip(an, argtypes):
                if ty is R:
                    formal.append(R(nm, nm))
                elif ty is B:
                    formal.append(B(nm, nm))
                else:
                    formal.append(ty.var(nm))
            body = pyfn(*formal)
            text = 'pub open spec fn %s(%s) -> %s { %s }\n' % (
                name, ', '.join('%s: %s' % (nm, type_text(ty)) for nm, ty in zip(an, argtypes)),
                type_text(rettype), body.spec)
            assert name not in lib.names, name
            lib.names.add(name)
            lib.defs.append((name, text))

            def call(*args):
                args = [lift(a) if t is R else a for a, t in zip(args, argtypes)]
                res = pyfn(*args)
                return with_spec(res, '%s(%s)' % (name, ', '.join(a.spec for a in args)))
            call.__name__ = name
            call.pyfn = pyfn
            return call
        return deco

    def text(self, only=None):
        return ''.join(t for n, t in self.defs if only is None or n in only)


# ---------------------------------------------------------------------------
# law lemmas

class Law:
    """ensures statements over symbolic values; generates a flat pass-B lemma and a pass-A lemma calling it."""

    def __init__(self, name, params, hyps=None):
        """params: [(name, cls)]"""
        self.name = name
        self.params = params
        self.vars = []
        for nm, cls in params:
            if cls is R:
                self.vars.append(R(nm, nm))
            else:
                self.vars.append(cls.var(nm))
        self.concl = []     # list of (spec_stmt, [flat_stmt...])
        self.hyps = []      # (spec_stmt, flat_stmt)
        self.steps = []     # extra flat asserts (certificates) before conclusions
        self.direct = False

    def atoms(self):
        """[(flat param name, call argument text)]"""
        out = []
        for (nm, cls), v in zip(self.params, self.vars):
            if cls is R:
                out.append((nm, nm + '@'))
            else:
                for leaf in v.leaves():
                    out.append((leaf.flat, leaf.spec + '@'))
        return out

    def require(self, b: B):
        self.hyps.append((b.spec, b.flat))

    def require_flat(self, spec, flat):
        self.hyps.append((spec, flat))

    def eq(self, a, b):
        """a == b (same type)"""
        if isinstance(a, R) or isinstance(b, R):
            a, b = lift(a), lift(b)
            self.concl.append(('%s == %s' % (a.spec, b.spec), ['%s == %s' % (a.flat, b.flat)]))
        else:
            la, lb = a.leaves(), b.leaves()
            assert len(la) == len(lb)
            self.concl.append(('%s == %s' % (a.spec, b.spec), ['%s == %s' % (x.flat, y.flat) for x, y in zip(la, lb)]))

    def holds(self, b: B):
        self.concl.append((b.spec, [b.flat]))

    def render(self):
        atoms = self.atoms()
        pname = 'p_' + self.name
        flat_params = ', '.join('%s: real' % a for a, _ in atoms)
        flat_req = [h[1] for h in self.hyps]
        flat_ens = [s for _, fl in self.concl for s in fl]
        pb = 'pub proof fn %s(%s)\n' % (pname, flat_params)
        if flat_req:
            pb += '    requires ' + ',\n        '.join(flat_req) + ',\n'
        pb += '    ensures ' + ',\n        '.join(flat_ens) + ',\n{\n'
        done = []
        for s in self.steps:
            pre = flat_req + done
            if pre:
                pb += '    assert(%s) by(nonlinear_arith) requires %s;\n' % (s, ', '.join(pre))
            else:
                pb += '    assert(%s) by(nonlinear_arith);\n' % s
            done.append(s)
        for s in flat_ens:
            if flat_req or self.steps:
                pb += '    assert(%s) by(nonlinear_arith) requires %s;\n' % (s, ', '.join(flat_req + self.steps))
            else:
                pb += '    assert(%s) by(nonlinear_arith);\n' % s
        pb += '}\n'
        pa = 'pub proof fn law_%s(%s)\n' % (self.name, ', '.join('%s: %s' % (nm, type_text(cls)) for nm, cls in self.params))
        if self.hyps:
            pa += '    requires ' + ',\n        '.join(h[0] for h in self.hyps) + ',\n'
        pa += '    ensures ' + ',\n        '.join(c[0] for c in self.concl) + ',\n{\n'
        pa += '    poly::%s(%s);\n' % (pname, ', '.join(c for _, c in atoms))
        pa += '}\n'
        return pa, pb
