#!/usr/bin/env python3
"""debug helper: try_lemma.py FILE FN [--mf] : run each `assert(..) by(nonlinear_arith)..;` of a proof fn separately (others assumed)"""
import sys, re, subprocess, os, tempfile, concurrent.futures as cf, time
path, fn = sys.argv[1], sys.argv[2]
mf = '--mf' in sys.argv
s = open(path).read()
i = s.index('proof fn %s(' % fn)
i = s.rfind('\n', 0, i) + 1
# find end of fn: matching braces from first '{' after signature... find "\n}\n"
j = s.index('\n}\n', i) + 3
lem = s[i:j]
hb = lem.index('\n{\n') + 3
head, body = lem[:hb], lem[hb:-2]
stmts = [x for x in body.split('\n') if x.strip()]
def run(k):
    lines = []
    for n, st in enumerate(stmts):
        if n == k or not st.strip().startswith('assert('):
            lines.append(st)
        elif n < k:
            # assume earlier facts
            a = st.index('assert(') + 7
            depth, b = 1, a
            while depth:
                depth += {'(': 1, ')': -1}.get(st[b], 0)
                b += 1
            lines.append('    assume(%s);' % st[a:b - 1])
    if k is None:
        lines = stmts
    h2 = re.sub(r'ensures.*?\n\{', '\n{', head, flags=re.S) if k is not None else head
    txt = 'use vstd::prelude::*;\nverus!{\n' + h2 + '\n'.join(lines) + '\n}\n}\nfn main(){}\n'
    d = tempfile.mkdtemp()
    f = os.path.join(d, 't.rs'); open(f, 'w').write(txt)
    t0 = time.time()
    cmd = ['timeout', '40', 'verus', f] + (['--smt-option', 'smt.macro_finder=true'] if mf else [])
    p = subprocess.run(cmd, capture_output=True, text=True)
    ok = 'verified, 0 errors' in p.stdout
    return k, ok, time.time() - t0, (p.stdout + p.stderr)[-300:] if not ok else ''
ks = [n for n, st in enumerate(stmts) if st.strip().startswith('assert(')]
with cf.ThreadPoolExecutor(8) as ex:
    for k, ok, t, msg in ex.map(run, ks):
        print(k, 'OK ' if ok else 'FAIL', '%.1fs' % t, stmts[k].strip()[:110], msg.replace('\n', ' ')[:200] if not ok else '')
