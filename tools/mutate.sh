#!/bin/bash
# mutate.sh <prop> <file> <sed-expr> : apply a one-token mutation to /repo, check it compiles, run the check, restore.
P=$1; F=$2; E=$3
cd /repo && sed -i "$E" "$F"
if git diff --quiet; then echo "MUTATION DID NOT APPLY"; exit 9; fi
git diff | grep '^[+-]' | grep -v '^+++\|^---' | head -6
if ! cargo build --offline -q 2>/dev/null; then echo "DOES NOT COMPILE"; git checkout -- .; exit 8; fi
cd /verif && ./check $P 2>&1 | cut -c1-220 | head -8; echo "rc=${PIPESTATUS[0]}"
git -C /repo checkout -- .
