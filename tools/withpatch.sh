#!/bin/bash
# withpatch.sh <patch.diff> <Cxx> [check args] : apply a patch to /repo, run ./check, undo the patch straight afterwards
PATCH=$(readlink -f $1); P=$2; shift 2
cd /repo && git apply $PATCH || { echo "patch does not apply"; exit 9; }
cd /verif && ./check $P "$@"; RC=$?
git -C /repo checkout -- .
echo "rc=$RC"
