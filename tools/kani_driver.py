"""Kani harness groups: run `cargo kani` on /verif/kani (path dependency on /repo), parse per-harness results."""
import os
import re
import shutil
import subprocess
import time

from driver import ROOT, sh

KDIR = os.path.join(ROOT, 'kani')

# property -> list of (harness pattern, tier, bounded?, extra cargo-kani args)
GROUPS = {}


def register(prop, pattern, tier='quick', bounded=None, args=()):
    GROUPS.setdefault(prop, []).append(dict(pattern=pattern, tier=tier, bounded=bounded, args=list(args)))


def parse(out):
    """-> {harness: 'ok' | 'failed'}, {harness: [failed check lines]}, (n_ok, n_fail, n_total) from Kani's own summary"""
    cur = {}
    res = {}
    fails = {}
    active = '0'
    for line in out.splitlines():
        m = re.match(r'Thread (\d+): (.*)', line)
        if m:
            th, txt = m.group(1), m.group(2)
            mm = re.match(r'Checking harness (\S+?)\.\.\.', txt)
            if mm:
                cur[th] = mm.group(1)
            else:
                active = th
            continue
        mm = re.match(r'Checking harness (\S+?)\.\.\.', line)
        if mm:
            cur['0'] = mm.group(1)
            active = '0'
            continue
        if active in cur:
            h = cur[active]
            if 'VERIFICATION:- SUCCESSFUL' in line:
                res[h] = 'ok'
            elif 'VERIFICATION:- FAILED' in line:
                res[h] = 'failed'
            elif line.startswith('Failed Checks:') or line.strip().startswith('File:'):
                fails.setdefault(h, []).append(line.strip())
    summ = re.search(r'Complete - (\d+) successfully verified harnesses, (\d+) failures, (\d+) total', out)
    return res, fails, (tuple(int(x) for x in summ.groups()) if summ else None)


def run(prop, tier, seed):
    t0 = time.time()
    out = {'failures': [], 'infra': [], 'cmds': [], 'n_proof': 0, 'n_proof_ok': 0, 'bounded': [], 'samples': [], 'harnesses': [], 'wall_s': 0}
    try:
        shutil.copy('/repo/Cargo.lock', os.path.join(KDIR, 'Cargo.lock'))
    except Exception:
        pass
    env = dict(os.environ, CARGO_NET_OFFLINE='true')
    for g in GROUPS.get(prop, []):
        if g['tier'] == 'thorough' and tier != 'thorough':
            continue
        args = list(g['args'])
        if '-Z' not in args or 'unstable-options' not in args:
            args += ['-Z', 'unstable-options']
        args += ['--harness-timeout', os.environ.get('VERIF_KANI_HARNESS_TIMEOUT', '900s' if g['tier'] == 'thorough' else '600s')]
        cmd = ['cargo', 'kani', '-j', '16', '--output-format', 'terse', '--harness', g['pattern']] + args
        rc, so, se, wall = sh(cmd, timeout=int(os.environ.get('VERIF_KANI_TIMEOUT', '3000')), cwd=KDIR, env=env)
        out['cmds'].append('(cd kani && %s)' % ' '.join(cmd))
        text = so + '\n' + se
        if rc == 124:
            out['infra'].append('kani timed out: %s' % ' '.join(cmd))
            continue
        if 'error: could not compile' in text or 'Failed to execute cargo' in text:
            out['infra'].append('kani harness crate does not compile against /repo (lost anchor or tree does not build): ' + text[-1500:])
            continue
        res, fails, summ = parse(text)
        if summ is None or summ[2] != len(res) or summ[0] != sum(1 for r in res.values() if r == 'ok'):
            out['infra'].append('kani output could not be parsed consistently (summary %s, parsed %d): %s' % (summ, len(res), text[-600:]))
            continue
        if not res:
            out['infra'].append('no harness matched %r or no result parsed: %s' % (g['pattern'], text[-800:]))
            continue
        for h, r in sorted(res.items()):
            out['harnesses'].append({'harness': h, 'result': r, 'bounded': g['bounded']})
            if g['bounded']:
                out['bounded'].append({'harness': h, 'bound': g['bounded'], 'result': r})
            else:
                out['n_proof'] += 1
                if r == 'ok':
                    out['n_proof_ok'] += 1
            if r != 'ok' and not fails.get(h):
                out['infra'].append('kani harness %s did not complete (solver killed / crashed / out of resources): undecided' % h)
                continue
            if r != 'ok':
                out['failures'].append({'obligation': 'kani::' + h, 'origin': 'kani/src (real compiled crate)', 'kind': 'fn',
                                        'message': '; '.join(fails.get(h, []))[:600] or 'kani harness failed',
                                        'rendered': '\n'.join(fails.get(h, [])), 'kani_harness': h, 'kani_args': g['args']})
        out['samples'] += [{'obligation': 'kani::' + h, 'bounded': g['bounded']} for h in sorted(res)[:2]]
    out['wall_s'] = round(time.time() - t0, 1)
    return out


def playback(harness, args=()):
    """concrete counterexample of a failed harness (Rust unit test text printed by Kani)"""
    env = dict(os.environ, CARGO_NET_OFFLINE='true')
    cmd = ['cargo', 'kani', '--harness', harness, '--exact', '-Z', 'concrete-playback', '--concrete-playback=print', '--output-format', 'terse'] + list(args)
    rc, so, se, wall = sh(cmd, timeout=1800, cwd=KDIR, env=env)
    m = re.search(r'```\n(.*?)```', so, re.S)
    return m.group(1) if m else None


# ---------------------------------------------------------------------------
register('C16', 'c16::')
register('C16', 'c02::')
register('C02', 'c02::')
register('C03', 'c03::')
register('C17', 'c03::')
register('C12', 'c12::', bounded='point lists of length 1..=4 (one harness per length), i8 components, no overflow assumed; unwinding assertions on')
register('C17', 'c17::left_u8', args=['-Z', 'unstable-options', '--no-overflow-checks'])
register('C17', 'c17::left_i8', tier='thorough', args=['-Z', 'unstable-options', '--no-overflow-checks'])
register('C17', 'c17p::', bounded='iter::Product / Sum of Matrix2, Quaternion, Basis3 over at most 3 elements of the 8-bit ring W8; unwinding assertions on')
register('C17', 'c17::sums', bounded='iterators of at most 4 (Vector3<i32>) / 3 (Rad<f32>) elements; unwinding assertions on', args=['-Z', 'unstable-options', '--no-overflow-checks'])
register('C18', 'c18::is_finite', args=['-Z', 'unstable-options', '--no-overflow-checks'])
register('C18', 'c18::', tier='thorough', args=['-Z', 'unstable-options', '--no-overflow-checks'])
register('C19', 'c19::')
register('C20', 'c20::')
