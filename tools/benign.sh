#!/bin/bash
# benign.sh <Cxx> [features] : confirm a behaviour-preserving refactor (from $WTROOT/<Cxx>/OUT) in a scratch worktree
# (existing suite passes, its demo passes with AND without the change), then run the property's check against it: want rc=0
D=$1; FEAT=$2; P=${D:0:3}; WT=${WTROOT:-}
SRC=${WTROOT:+$WTROOT/$D/OUT}; SRC=${SRC:-/verif/benign/$D}
W=/tmp/sv/$D
[ -f $SRC/patch.diff ] || { echo "no patch for $P"; exit 9; }
rm -rf $W; git -C /repo worktree prune; mkdir -p /tmp/sv
git -C /repo worktree add --detach $W HEAD >/dev/null 2>&1 || { echo "worktree failed"; exit 9; }
cd $W
FA=""; [ -n "$FEAT" ] && FA="--features $FEAT"
cp $SRC/benign_demo.rs tests/benign_demo.rs
cargo test --offline $FA --test benign_demo >/tmp/sv/$D.without.log 2>&1; WITHOUT=$?
git apply $SRC/patch.diff || { echo "patch does not apply"; exit 9; }
cargo test --offline $FA --test benign_demo >/tmp/sv/$D.with.log 2>&1; WITH=$?
rm tests/benign_demo.rs
cargo test --offline >/tmp/sv/$D.suite.log 2>&1; SUITE=$?
NPASS=$(grep "test result" /tmp/sv/$D.suite.log | awk '{p+=$4; f+=$6} END {print p" passed "f" failed"}')
echo "$D: demo without change rc=$WITHOUT with change rc=$WITH (want 0 0); existing suite with change rc=$SUITE ($NPASS)"
cd /; git -C /repo worktree remove --force $W
cd /repo && git apply $SRC/patch.diff && cd /verif && ./check $P > /tmp/sv/$D.check.log 2>&1; RC=$?
git -C /repo checkout -- .
echo "$D: check rc=$RC (want 0)"; grep -E "^VIOLATION|^failed obligation|^UNDECIDED|^OK|failing input" /tmp/sv/$D.check.log | cut -c1-300 | head -8
