"""Body rewrite rules (the closed list of tools/RULES.md, body part)."""
import re
from extract import ExtractError

# R5: cast(<literal>).unwrap()  ->  model constant
CAST_RE = re.compile(r'cast\(\s*(-?[0-9][0-9_]*(?:\.[0-9_]+)?(?:e-?[0-9]+)?)(f64|f32|[iu](?:8|16|32|64|128|size)|)\s*\)\s*\.unwrap\(\)')


def lit_const(m):
    val = m.group(1).replace('_', '')
    return 'Sc::lit_%s()' % val.replace('.', 'p').replace('-', 'm')


PANIC_RES = [
    re.compile(r'::std::rt::begin_panic\((?:[^()]|\([^()]*\))*\)'),
    re.compile(r'::std::rt::panic_fmt\(format_args!\((?:[^()]|\((?:[^()]|\([^()]*\))*\))*\)\)'),
    re.compile(r'::core::panicking::panic\((?:[^()]|\([^()]*\))*\)'),
    re.compile(r'::core::panicking::panic_fmt\(format_args!\((?:[^()]|\((?:[^()]|\([^()]*\))*\))*\)\)'),
]

UNSUPPORTED = [
    (re.compile(r'\btransmute\b'), 'mem::transmute (rule R7: Kani)'),
    (re.compile(r'\bptr::'), 'raw pointer operation (rule R7: Kani)'),
    (re.compile(r'\.fold\('), 'iterator fold (rule R8: Kani)'),
]


NUM_RE = re.compile(r'(-?[0-9][0-9_]*(?:\.[0-9_]*)?(?:[eE][+-]?[0-9]+)?)(f64|f32|[iu](?:8|16|32|64|128|size))?$')
PI_RE = re.compile(r'(?:::)?(?:(?:std|core)::)?f(?:64|32)::consts::PI')


def const_real(text):
    """R5: a compile-time float constant expression (literals, f64::consts::PI, + - * /, parentheses) -> the exact real it
    denotes, as Verus text; None when the text is anything else"""
    from fractions import Fraction
    t = PI_RE.sub(' @PI@ ', text)
    toks = re.findall(r'@PI@|[0-9][0-9_]*(?:\.[0-9_]*)?(?:[eE][+-]?[0-9]+)?(?:f64|f32|[iu](?:8|16|32|64|128|size))?|[-+*/()]|\S+', t)
    out = []
    for x in toks:
        if x == '@PI@':
            out.append('r_pi()')
        elif x in '+-*/()':
            out.append(x)
        else:
            m = NUM_RE.match(x)
            if not m:
                return None
            fr = Fraction(m.group(1).replace('_', '').rstrip('.') if not m.group(1).endswith('.') else m.group(1).replace('_', '') + '0')
            out.append('%dreal' % fr.numerator if fr.denominator == 1 else '(%dreal / %dreal)' % (fr.numerator, fr.denominator))
    if not out:
        return None
    txt = ' '.join(out)
    # unary minus at the start or after an operator / parenthesis: 0 - x
    txt = re.sub(r'(^|[(*/+-]\s*)-\s*', lambda m: m.group(1) + '0real - ', txt)
    if txt.count('(') != txt.count(')'):
        return None
    return '(' + txt + ')'


def rewrite_casts(body, unit):
    """R5 (general form): `cast(<constant expression>)[.unwrap()]` -> the model scalar holding exactly that real"""
    out = ''
    i = 0
    for m in re.finditer(r'(?<![A-Za-z0-9_.])cast(?:\s*::\s*<[^()]*?>)?\(', body):
        if m.start() < i:
            continue
        depth, j = 1, m.end()
        while j < len(body) and depth:
            if body[j] in '([{':
                depth += 1
            elif body[j] in ')]}':
                depth -= 1
            j += 1
        arg = body[m.end():j - 1]
        val = const_real(arg.strip())
        if val is None:
            continue
        out += body[i:m.start()]
        mu = re.match(r'\s*\.\s*unwrap\(\s*\)', body[j:])
        if mu:
            out += 'sc_const(Ghost(%s))' % val
            i = j + mu.end()
        else:
            out += 'Some(sc_const(Ghost(%s)))' % val
            i = j
    return out + body[i:]


def subst_named_consts(body, unit, f):
    """module-level `const NAME: f64 = <expr>;` of the crate are replaced by their defining expression (in parentheses)"""
    consts = getattr(unit.src, 'consts', None)
    if consts is None:
        consts = {}
        from rsparse import Other
        for it in unit.src.items:
            if isinstance(it, Other) and it.kind == 'const':
                txt = unit.src.p.text(it.toks[0], it.toks[1])
                m = re.match(r'.*?const\s+([A-Z][A-Z0-9_]*)\s*:\s*(f64|f32)\s*=\s*(.*?);?\s*$', txt, re.S)
                if m:
                    consts[m.group(1)] = m.group(3).strip()
        unit.src.consts = consts
    # function-local `const NAME: f64 = <expr>;` declarations: substituted the same way, the declaration is dropped
    local = {}
    def grab(m):
        local[m.group(1)] = m.group(3).strip()
        return ''
    body = re.sub(r'(?<![A-Za-z0-9_])const\s+([A-Z][A-Z0-9_]*)\s*:\s*(f64|f32)\s*=\s*([^;]+);', grab, body)
    for k, v in list(consts.items()) + list(local.items()):
        body = re.sub(r'(?<![A-Za-z0-9_:.])%s(?![A-Za-z0-9_])' % k, '(%s)' % v, body)
    return body


def apply_body_rules(body, unit, c, f):
    for rx, why in UNSUPPORTED:
        if rx.search(body):
            raise ExtractError('unsupported construct in %s: %s' % (f.name, why))
    # R9 panics
    repl = 'diverge()' if c.variant == 'returns-only-if' else 'vpanic()'
    if c.variant.startswith('panics-iff:'):
        # both directions: the panic site must be reachable only when the stated precondition is violated,
        # and the function returns only when it holds
        repl = 'vpanic_iff(Ghost(%s))' % c.variant[len('panics-iff:'):]
    for rx in PANIC_RES:
        body = rx.sub(repl, body)
    if 'panic' in body and 'vpanic' not in body.replace('vpanic', ''):
        pass
    body = re.sub(r'cast\(\s*180\.0\s*/\s*f64::consts::PI\s*\)\s*\.unwrap\(\)', 'Sc::const_180_over_pi()', body)
    body = re.sub(r'cast\(\s*f64::consts::PI\s*/\s*180\.0\s*\)\s*\.unwrap\(\)', 'Sc::const_pi_over_180()', body)
    body = re.sub(r'cast\(\s*f64::consts::PI\s*\*\s*2\.0\s*\)\s*\.unwrap\(\)', 'Sc::const_two_pi()', body)
    # R5 literal casts
    body = CAST_RE.sub(lit_const, body)
    # R13 approx builder forms with explicit options
    def opts(m):
        kind, chain, op = m.group(1), m.group(2), m.group(3)
        o = dict(re.findall(r'\.(epsilon|max_ulps|max_relative)\(((?:[^()]|\((?:[^()]|\([^()]*\))*\))*)\)', chain))
        if 'max_relative' in o or kind == 'Relative':
            raise ExtractError('approx Relative builder with options is not modelled')
        eps = 'Some(%s)' % o['epsilon'] if 'epsilon' in o else 'None'
        if kind == 'Ulps':
            mu = 'Some(%s)' % o['max_ulps'] if 'max_ulps' in o else 'None'
            return 'ulps_opts_%s(%s, %s, ' % (op, eps, mu)
        return 'abs_diff_opts_%s(%s, ' % (op, eps)
    body = re.sub(r'::approx::(Ulps|AbsDiff|Relative)::default\(\)((?:\s*\.(?:epsilon|max_ulps|max_relative)\((?:[^()]|\((?:[^()]|\([^()]*\))*\))*\))+)\s*\.(eq|ne)\(', opts, body)
    # R13 approx builder forms
    body = re.sub(r'::approx::Ulps::default\(\)\s*\.eq\(', 'ulps_default_eq(', body)
    body = re.sub(r'::approx::Ulps::default\(\)\s*\.ne\(', 'ulps_default_ne(', body)
    body = re.sub(r'::approx::AbsDiff::default\(\)\s*\.eq\(', 'abs_diff_default_eq(', body)
    body = re.sub(r'::approx::AbsDiff::default\(\)\s*\.ne\(', 'abs_diff_default_ne(', body)
    # R5 named constants of the crate, then constant casts in general (after R13: the builder options are matched on the original text)
    body = subst_named_consts(body, unit, f)
    body = rewrite_casts(body, unit)
    # R6 get_unchecked
    body = re.sub(r'\*\s*([A-Za-z_][A-Za-z0-9_]*)\.get_unchecked\(([^()]*)\)', r'\1[\2]', body)
    # R12 unsafe blocks whose content is now safe
    body = re.sub(r'\bunsafe\s*\{', '{', body)
    for extra in getattr(unit, 'body_rules', []):
        body = extra(body, c, f)
    return body


def literal_block(text):
    """rule R5: trusted model constants for every `Sc::lit_*()` the rewritten bodies use"""
    from fractions import Fraction
    names = sorted(set(re.findall(r'Sc::(lit_[0-9a-z]+)\(\)', text)))
    if not names:
        return ''
    out = ['verus! {\n// ---- rule R5: literal constants (exact decimal value of the literal; rounding to S is part of A1)\nimpl Sc {\n']
    for n in names:
        v = n[4:].replace('p', '.').replace('m', '-')
        fr = Fraction(v)
        val = '%dreal' % fr.numerator if fr.denominator == 1 else '(%dreal / %dreal)' % (fr.numerator, fr.denominator)
        if fr.numerator < 0:
            val = '(0real - %s)' % val.replace('-', '')
        out.append('    #[verifier::external_body] pub fn %s() -> (r: Sc) ensures r == s_lit(%s) { unimplemented!() }\n' % (n, val))
    out.append('}\n} // verus!\n')
    return ''.join(out)
