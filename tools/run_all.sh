#!/bin/bash
# run every claimed check (quick tier) on the current /repo tree; used before committing evidence
cd /verif
rc=0
for p in $(python3 -c "import json;print(' '.join(c['property_id'] for c in json.load(open('MANIFEST.json'))['checks']))"); do
  if [ -n "$1" ] && [[ ! " $* " =~ " $p " ]]; then continue; fi
  ./check $p --tier quick || rc=1
done
exit $rc
