#!/bin/bash
# seeded.sh <Cxx> [features] : confirm a seeded change (from /tmp/wt/<Cxx>/OUT) in a scratch worktree, then run the check against it
D=$1; FEAT=$2; P=${D:0:3}; WT=${WTROOT:-/tmp/wt}
SRC=$WT/$D/OUT
W=/tmp/sv/$D
[ -f $SRC/patch.diff ] || { echo "no patch for $P"; exit 9; }
rm -rf $W; git -C /repo worktree prune; mkdir -p /tmp/sv
git -C /repo worktree add --detach $W HEAD >/dev/null 2>&1 || { echo "worktree failed"; exit 9; }
cd $W
FA=""; [ -n "$FEAT" ] && FA="--features $FEAT"
cp $SRC/seeded_demo.rs tests/seeded_demo.rs
cargo test --offline $FA --test seeded_demo >/tmp/sv/$D.without.log 2>&1; WITHOUT=$?
git apply $SRC/patch.diff || { echo "patch does not apply"; exit 9; }
mv tests/seeded_demo.rs /tmp/sv/$D.demo.rs
cargo test --offline >/tmp/sv/$D.suite.log 2>&1; SUITE=$?
NPASS=$(grep "test result" /tmp/sv/$D.suite.log | awk '{p+=$4; f+=$6} END {print p" passed "f" failed"}')
cp /tmp/sv/$D.demo.rs tests/seeded_demo.rs
cargo test --offline $FA --test seeded_demo >/tmp/sv/$D.with.log 2>&1; WITH=$?
echo "$D: demo without change rc=$WITHOUT (want 0); existing suite with change rc=$SUITE ($NPASS); demo with change rc=$WITH (want != 0)"
cd /; git -C /repo worktree remove --force $W
# now the checks
cd /repo && git apply $SRC/patch.diff && cd /verif && ./check $P > /tmp/sv/$D.check.log 2>&1; RC=$?
git -C /repo checkout -- .
echo "$D: check rc=$RC"; grep -E "^VIOLATION|^failed obligation|^UNDECIDED|^OK|failing input" /tmp/sv/$D.check.log | cut -c1-260 | head -6
