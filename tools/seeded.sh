#!/bin/bash
# seeded.sh <Cxx> [features] : confirm a seeded change (from /tmp/wt/<Cxx>/OUT) in a scratch worktree, then run the check against it
P=$1; FEAT=$2
SRC=/tmp/wt/$P/OUT
W=/tmp/sv/$P
[ -f $SRC/patch.diff ] || { echo "no patch for $P"; exit 9; }
rm -rf $W; git -C /repo worktree prune; mkdir -p /tmp/sv
git -C /repo worktree add --detach $W HEAD >/dev/null 2>&1 || { echo "worktree failed"; exit 9; }
cd $W
FA=""; [ -n "$FEAT" ] && FA="--features $FEAT"
cp $SRC/seeded_demo.rs tests/seeded_demo.rs
cargo test --offline $FA --test seeded_demo >/tmp/sv/$P.without.log 2>&1; WITHOUT=$?
git apply $SRC/patch.diff || { echo "patch does not apply"; exit 9; }
mv tests/seeded_demo.rs /tmp/sv/$P.demo.rs
cargo test --offline >/tmp/sv/$P.suite.log 2>&1; SUITE=$?
NPASS=$(grep "test result" /tmp/sv/$P.suite.log | awk '{p+=$4; f+=$6} END {print p" passed "f" failed"}')
cp /tmp/sv/$P.demo.rs tests/seeded_demo.rs
cargo test --offline $FA --test seeded_demo >/tmp/sv/$P.with.log 2>&1; WITH=$?
echo "$P: demo without change rc=$WITHOUT (want 0); existing suite with change rc=$SUITE ($NPASS); demo with change rc=$WITH (want != 0)"
cd /; git -C /repo worktree remove --force $W
# now the checks
cd /repo && git apply $SRC/patch.diff && cd /verif && ./check $P > /tmp/sv/$P.check.log 2>&1; RC=$?
git -C /repo checkout -- .
echo "$P: check rc=$RC"; grep -E "^VIOLATION|^failed obligation|^UNDECIDED|^OK|failing input" /tmp/sv/$P.check.log | cut -c1-260 | head -6
