import sys, os, subprocess, json, time
HERE = os.path.dirname(os.path.abspath(__file__))
sys.path.insert(0, HERE)
from extract import Source
import units
import subprocess
src = Source(subprocess.check_output(['/verif/tools/expand.sh']).decode().strip().splitlines()[-1])
for u in units.UNITS[sys.argv[1]](src, (sys.argv[2:3] or ["quick"])[0]):
    text = u.emit()
    os.makedirs('/verif/.cache/units', exist_ok=True)
    path = '/verif/.cache/units/%s_%s.rs' % (u.name, u.model)
    open(path, 'w').write(text)
    print(path, len(text.splitlines()), 'lines', len(u.functions), 'fns')
