"""Mechanical extraction of cgmath functions from the macro expansion into Verus text.

See tools/RULES.md for the closed list of rewrites.  Bodies are copied token for
token; the only token-level edits are the substitutions of the scalar type
parameter(s) (rule R1/R3/R4) and the rules listed in RULES.md.
"""
import hashlib
import re
import sys
from rsparse import Parser, Fn, Impl, Trait, Other, Assoc, norm, OPEN


class ExtractError(Exception):
    """infrastructure problem: lost anchor, unsupported construct ... (exit 2)"""


OP_TRAITS = {
    'Add': 'add', 'Sub': 'sub', 'Mul': 'mul', 'Div': 'div', 'Rem': 'rem', 'Neg': 'neg',
    'AddAssign': 'add_assign', 'SubAssign': 'sub_assign', 'MulAssign': 'mul_assign',
    'DivAssign': 'div_assign', 'RemAssign': 'rem_assign',
}


def split_top(text, sep=','):
    """split on sep at nesting depth 0 of <>, (), [], {}."""
    out, depth, cur = [], 0, ''
    i = 0
    while i < len(text):
        c = text[i]
        if c == '-' and text[i:i + 2] == '->':
            cur += '->'
            i += 2
            continue
        if c in '<([{':
            depth += 1
        elif c in '>)]}':
            depth -= 1
        if c == sep and depth == 0:
            out.append(cur.strip())
            cur = ''
        else:
            cur += c
        i += 1
    if cur.strip():
        out.append(cur.strip())
    return out


class Source:
    def __init__(self, path):
        self.path = path
        self.src = open(path).read()
        self.p = Parser(self.src)
        self.items = self.p.parse()
        self.structs = {}
        self.traits = {}
        self.impls = []
        self.free_fns = {}
        for it in self.items:
            if isinstance(it, Other) and it.kind == 'struct':
                self.structs[it.name] = it
            elif isinstance(it, Trait):
                self.traits[it.name] = it
            elif isinstance(it, Impl):
                self.impls.append(it)
            elif isinstance(it, Fn):
                self.free_fns[(it.module, it.name)] = it

    # -------------------------------------------------------------- rendering
    def render(self, lo, hi, subst):
        """source text of tokens lo..hi with identifier substitution; whitespace
        and comments between tokens are preserved except doc comments."""
        t = self.p.toks
        out = []
        for i in range(lo, hi):
            if i > lo:
                gap = self.src[t[i - 1].end:t[i].start]
                if '/' in gap:
                    gap = re.sub(r'//[^\n]*', '', gap)
                    gap = re.sub(r'/\*.*?\*/', '', gap, flags=re.S)
                out.append(gap)
            x = t[i]
            if x.kind == 'id' and x.text in subst:
                out.append(subst[x.text])
            else:
                out.append(x.text)
        return ''.join(out)

    def struct_fields(self, name):
        it = self.structs[name]
        lo, hi = it.toks
        t = self.p.toks
        # find '{'
        b = lo
        while t[b].text not in ('{', '(', ';'):
            b += 1
        if t[b].text != '{':
            return None
        e = self.p.mt[b]
        fields = []
        i = b + 1
        while i < e:
            # skip attrs
            while t[i].text == '#':
                i = self.p.mt[i + 1] + 1
            if t[i].text == 'pub':
                i += 1
                if t[i].text == '(':
                    i = self.p.mt[i] + 1
            fname = t[i].text
            assert t[i + 1].text == ':'
            j = i + 2
            depth = 0
            while j < e:
                if t[j].text == '<':
                    depth += 1
                elif t[j].text == '>':
                    depth -= 1
                elif t[j].text == '>>':
                    depth -= 2
                elif t[j].text in OPEN:
                    j = self.p.mt[j]
                elif t[j].text == ',' and depth == 0:
                    break
                j += 1
            fields.append((fname, norm(self.p.text(i + 2, j))))
            i = j + 1
        return fields

    def find_impls(self, trait=None, selfty=None, pred=None):
        out = []
        for im in self.impls:
            if trait is not None and im.trait != trait:
                continue
            if selfty is not None and im.selfty != selfty:
                continue
            if pred is not None and not pred(im):
                continue
            out.append(im)
        return out

    def fn_sig_parts(self, f: Fn, subst):
        """split a signature into name, generics, params(list of text), ret, where."""
        t = self.p.toks
        lo, hi = f.sig
        i = lo + 2
        generics = ''
        if t[i].text == '<':
            j = self.p._skip_angle(i, hi)
            generics = self.render(i + 1, j - 1, subst)
            i = j
        assert t[i].text == '(', 'params expected: ' + self.p.text(lo, hi)
        e = self.p.mt[i]
        params = split_top(self.render(i + 1, e, subst)) if e > i + 1 else []
        i = e + 1
        ret = None
        where = ''
        if i < hi and t[i].text == '->':
            j = i + 1
            depth = 0
            while j < hi:
                if t[j].kind == 'id' and t[j].text == 'where' and depth == 0:
                    break
                if t[j].text == '<':
                    depth += 1
                elif t[j].text == '>':
                    depth -= 1
                elif t[j].text == '>>':
                    depth -= 2
                elif t[j].text in OPEN:
                    j = self.p.mt[j]
                j += 1
            ret = norm(self.render(i + 1, j, subst))
            i = j
        if i < hi and t[i].text == 'where':
            where = norm(self.render(i + 1, hi, subst))
        return f.name, generics, params, ret, where

    def body_text(self, f: Fn, subst):
        lo, hi = f.body
        return self.render(lo, hi, subst)

    def body_hash(self, f: Fn):
        lo, hi = f.body
        return hashlib.sha256(norm(self.p.text(lo, hi)).encode()).hexdigest()[:16]

    def line_of(self, tok_index):
        return self.src.count('\n', 0, self.p.toks[tok_index].start) + 1


def impl_generics(im: Impl, subst):
    """rewrite impl generics: drop params that are substituted, keep lifetimes/others (bounds kept)."""
    if not im.generics:
        return ''
    inner = im.generics.strip()[1:-1]
    keep = []
    for g in split_top(inner):
        name = g.split(':')[0].strip()
        if name in subst:
            continue
        keep.append(g)
    return '<' + ', '.join(keep) + '>' if keep else ''


def subst_text(text, subst):
    return re.sub(r"(?<![A-Za-z0-9_'])([A-Za-z_][A-Za-z0-9_]*)", lambda m: subst.get(m.group(1), m.group(1)), text)
