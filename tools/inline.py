"""Rule R18: mechanical inlining of un-contracted private helpers and of un-annotated let-bound closures.

A function the crate calls but that carries no contract (a private helper a refactoring introduced, say) cannot be
emitted as a Verus function: its callers would know nothing about its result.  Instead its body is inlined, token for
token, at each call site of a function under contract:

    h(e1, e2)            ->   { let a__0 = e1; let a__1 = e2; let p1: T1 = a__0; let p2: T2 = a__1; <body of h> }
    let g = |x, y| e;    ->   (removed)            and      g(e1, e2)  ->  { let a__0 = e1; let a__1 = e2; let x = a__0; let y = a__1; e }

which is call-by-value evaluation written out (arguments first, in order, then the body in a scope of its own).  The caller's
contract then covers the helper's code.  Refused (-> ExtractError, exit 2, never an alarm) when the helper's body contains
`return` or `?`, is recursive, or the call's receiver is not `self` / a path.
"""
import re
from rsparse import tokenize, match_delims, Fn, Impl
from extract import ExtractError, split_top, subst_text

MAX_DEPTH = 4


def _base(ty):
    m = re.match(r"&?\s*(?:'[a-z_]+\s+)?(?:mut\s+)?([A-Za-z_][A-Za-z0-9_]*)", ty or '')
    return m.group(1) if m else None


def split_args(text):
    """split the argument text of a call at top-level commas; `<` `>` are comparison operators unless they open a
    turbofish (`::<`) or a qualified path (`<T as Tr>::f` in operand position); closure parameter lists are skipped"""
    toks = tokenize(text)
    mt = match_delims(toks)
    out = []
    start = 0
    i = 0

    def skip_angle(i):
        depth = 0
        while i < len(toks):
            x = toks[i].text
            if x == '<':
                depth += 1
            elif x == '>':
                depth -= 1
            elif x == '>>':
                depth -= 2
            elif x in ('(', '[', '{'):
                i = mt[i]
            if depth <= 0:
                return i
            i += 1
        return i
    while i < len(toks):
        t = toks[i]
        if t.text in ('(', '[', '{'):
            i = mt[i]
        elif t.text == '<':
            prev = toks[i - 1] if i > 0 else None
            operand_pos = prev is None or (prev.kind == 'p' and prev.text not in (')', ']', '}', '>')) or prev.text in ('return', 'in', 'else')
            if (prev is not None and prev.text == '::') or operand_pos:
                i = skip_angle(i)
        elif t.text == '|' and Inliner._closure_start(toks, i):
            i += 1
            while i < len(toks) and toks[i].text != '|':
                if toks[i].text == '<':
                    i = skip_angle(i)
                i += 1
        elif t.text == ',':
            out.append(text[start:t.start].strip())
            start = t.end
        i += 1
    last = text[start:].strip()
    if last:
        out.append(last)
    return out


def src_ret(src, f, subst):
    return src.fn_sig_parts(f, subst)[3]


class Inliner:
    def __init__(self, unit):
        self.unit = unit
        self.src = unit.src
        self.counter = 0
        self.log = []          # (caller, helper) pairs, for the evidence

    # ---- lookup -----------------------------------------------------
    def inherent(self, base, name):
        out = []
        for im in self.src.impls:
            if im.trait is None and _base(im.selfty) == base:
                for it in im.items:
                    if isinstance(it, Fn) and it.name == name and it.body is not None:
                        out.append((im, it))
        return out

    def free(self, module, name):
        c = [(None, f) for (mod, nm), f in self.src.free_fns.items() if nm == name and f.body is not None]
        same = [x for x in c if x[1].module == module]
        return same or c

    def uncontracted(self, im, f):
        try:
            return self.unit.contract(im, f) is None
        except Exception:
            return False

    # ---- the rewrite --------------------------------------------------
    def run(self, im, f, body, depth=0, stack=()):
        try:
            c = self.unit.contract(im, f)
        except Exception:
            c = None
        from desugar import desugar, option_oracle
        body, done = desugar(body, option_oracle(self.src, f))
        for d in done:
            self.log.append((f.name, 'Option::' + d + ' written out (R19)'))
        body = self.inline_helpers(im, f, body, depth, stack)
        body = self.inline_closures(im, f, body)
        return body

    def inline_helpers(self, im, f, body, depth, stack):
        changed = True
        rounds = 0
        while changed:
            changed = False
            rounds += 1
            if rounds > 200:
                raise ExtractError('inlining does not terminate in %s' % f.name)
            toks = tokenize(body)
            mt = match_delims(toks)
            for i, t in enumerate(toks):
                if t.kind != 'id' or i + 1 >= len(toks) or toks[i + 1].text != '(':
                    continue
                if i > 0 and toks[i - 1].text in ('fn', '!'):
                    continue
                name = t.text
                start = i
                recv = None
                cands = []
                selfbase = _base(im.selfty) if im is not None else None
                if i >= 2 and toks[i - 1].text == '::':
                    # path call: Self::name / Type::name / Type::<..>::name / Type<..>::name
                    j = i - 2
                    if toks[j].text == '>':
                        continue        # generic path: left to rustc
                    if toks[j].kind != 'id':
                        continue
                    if j >= 1 and toks[j - 1].text == '::':
                        continue        # longer path (module::f or Trait::f): not ours
                    ty = toks[j].text
                    base = selfbase if ty == 'Self' else ty
                    cands = self.inherent(base, name)
                    start = j
                    recv = ('path', ty)
                elif i >= 2 and toks[i - 1].text == '.':
                    if toks[i - 2].text != 'self' or (i >= 3 and toks[i - 3].text == '.'):
                        # a method call on another receiver: the helper is identified by its name among the un-contracted
                        # inherent methods of the crate, preferring the caller's own type
                        allc = [(im2, f2) for im2 in self.src.impls if im2.trait is None for f2 in im2.items
                                if isinstance(f2, Fn) and f2.name == name and f2.body is not None and self.uncontracted(im2, f2)
                                and not self.selected(im2, f2)]
                        same = [(im2, f2) for im2, f2 in allc if _base(im2.selfty) == selfbase]
                        pick = allc if len(allc) == 1 else same
                        if len(pick) != 1:
                            continue
                        from desugar import _receiver_start
                        rev = {v: k for k, v in mt.items()}
                        rs = _receiver_start(toks, rev, i - 1)
                        if rs is None:
                            continue
                        cands = pick
                        start = rs
                        recv = ('expr', body[toks[rs].start:toks[i - 1].start].strip())
                    else:
                        cands = self.inherent(selfbase, name)
                        start = i - 2
                        recv = ('self', None)
                else:
                    cands = self.free(f.module, name)
                    recv = ('free', None)
                cands = [(im2, f2) for im2, f2 in cands if self.uncontracted(im2, f2)]
                if not cands:
                    continue
                if len(cands) > 1:
                    # several inherent impl blocks of one type may define the name only once each; ambiguity -> refuse
                    raise ExtractError('un-contracted helper %s is ambiguous (%d candidates)' % (name, len(cands)))
                im2, f2 = cands[0]
                if recv[0] != 'free' and self.selected(im2, f2):
                    continue
                key = (id(im2), f2.name)
                if key in stack or depth >= MAX_DEPTH:
                    raise ExtractError('un-contracted helper %s is recursive or nested too deeply' % name)
                close = mt[i + 1]
                args = split_args(body[toks[i + 1].end:toks[close].start]) if close > i + 2 else []
                args = [a.strip() for a in args if a.strip()]
                tail_ret = None
                if all(x.text == '}' for x in toks[close + 1:]) and depth == 0:
                    tail_ret = src_ret(self.src, f, self.unit.subst)
                rep = self.expand_call(im, f, im2, f2, recv, args, depth, stack, tail_ret)
                body = body[:toks[start].start] + rep + body[toks[close].end:]
                self.log.append((f.name, f2.name))
                changed = True
                break
        return body

    def selected(self, im2, f2):
        """is the function emitted as an item of this unit anyway?"""
        ms, ok = self.unit.selected_methods(im2) if im2 is not None else (None, False)
        if not ok:
            return False
        return ms is None or f2.name in ms

    def expand_call(self, im, f, im2, f2, recv, args, depth, stack, tail_ret=None):
        src, unit = self.src, self.unit
        subst = dict(unit.subst)
        name, generics, params, ret, where = src.fn_sig_parts(f2, subst)
        hb = src.body_text(f2, subst)
        htoks = tokenize(hb)
        for t in htoks:
            if (t.kind == 'id' and t.text == 'return') or (t.kind == 'p' and t.text == '?'):
                raise ExtractError('un-contracted helper %s contains `%s`: cannot be inlined' % (f2.name, t.text))
        # generic type parameters of the helper that the unit does not substitute: `T::f` -> `<_ as Bound>::f`, `T` -> `_`
        gen = {}
        allg = src.fn_sig_parts(f2, {})[1] or ''
        if im2 is not None and im2.generics:
            allg = allg + ', ' + subst_text(im2.generics.strip()[1:-1], {})
        for g in split_top(allg):
            g = g.strip()
            if not g or g.startswith("'"):
                continue
            nm = g.split(':')[0].strip()
            if nm in subst or not re.fullmatch(r'[A-Z][A-Za-z0-9_]*', nm):
                continue
            bound = None
            if ':' in g:
                for b in split_top(g.split(':', 1)[1], '+'):
                    b = b.strip()
                    bn = re.match(r'[A-Za-z_][A-Za-z0-9_:]*', b)
                    if bn and bn.group(0).split('::')[-1] in src.traits:
                        bound = b
                        break
            gen[nm] = bound

        resolved = {}
        raw_ret = src.fn_sig_parts(f2, {})[3]
        if tail_ret and raw_ret and raw_ret.strip() in gen:
            # the call is the caller's tail expression: the helper's return type parameter is the caller's return type
            resolved[raw_ret.strip()] = tail_ret

        def degen(text):
            for nm, ty in resolved.items():
                text = re.sub(r'(?<![A-Za-z0-9_])%s\s*::' % nm, '<%s>::' % ty, text)
                text = re.sub(r'(?<![A-Za-z0-9_:])%s(?![A-Za-z0-9_])' % nm, ty, text)
            for nm, bound in gen.items():
                if nm in resolved:
                    continue
                if bound:
                    text = re.sub(r'(?<![A-Za-z0-9_])%s\s*::' % nm, '<_ as %s>::' % bound, text)
                text = re.sub(r'(?<![A-Za-z0-9_:])%s(?![A-Za-z0-9_])' % nm, '_', text)
            return text
        hb = degen(hb)
        k = self.counter
        self.counter += 1
        binds = []
        selfname = 'self_h%d' % k
        ai = 0
        pre = []
        post = []
        caller_self_ref = None
        if im is not None or True:
            _, _, cparams, _, _ = src.fn_sig_parts(f, {})
            for p in cparams:
                p = p.strip()
                if re.fullmatch(r"&\s*('[a-z_]+\s+)?(mut\s+)?self", p):
                    caller_self_ref = True
                elif re.fullmatch(r"(mut\s+)?self", p):
                    caller_self_ref = False
        uses_self = False
        const_params = []
        for p in params:
            p = p.strip()
            ms = re.fullmatch(r"(&)?\s*('[a-z_]+\s+)?(mut\s+)?self", p)
            if ms:
                uses_self = True
                if recv[0] == 'expr':
                    want_ref = bool(ms.group(1))
                    pre.append('let %s = %s(%s);' % (selfname, '&' if want_ref else '', recv[1]))
                elif recv[0] != 'self':
                    # Type::method(receiver, ..): the receiver is the first argument
                    if ai >= len(args):
                        raise ExtractError('call of helper %s: missing receiver' % f2.name)
                    pre.append('let %s = %s;' % (selfname, args[ai]))
                    ai += 1
                else:
                    want_ref = bool(ms.group(1))
                    if caller_self_ref is None:
                        raise ExtractError('call of helper %s through self in a function without self' % f2.name)
                    if want_ref == caller_self_ref:
                        pre.append('let %s = self;' % selfname)
                    elif want_ref:
                        pre.append('let %s = &self;' % selfname)
                    else:
                        pre.append('let %s = *self;' % selfname)
                continue
            m = re.match(r'(mut\s+)?([A-Za-z_][A-Za-z0-9_]*)\s*:\s*(.*)$', p, re.S)
            if not m:
                raise ExtractError('helper %s has a pattern parameter: %s' % (f2.name, p))
            if ai >= len(args):
                raise ExtractError('call of helper %s: too few arguments' % f2.name)
            ty = degen(re.sub(r"'[a-z_]+\s+", '', m.group(3).strip()))
            ty = re.sub(r'\bimpl\b.*', '_', ty)
            if re.match(r'(move\s+)?\|', args[ai]):
                # a closure literal passed to a higher-order helper: bound under the parameter's name, then inlined at its calls
                post.append('let %s = %s;' % (m.group(2), args[ai]))
                ai += 1
                continue
            from rules import const_real
            if ty in ('f64', 'f32') and const_real(args[ai].strip()) is not None and not m.group(1):
                const_params.append((m.group(2), args[ai].strip()))
                ai += 1
                continue
            tmp = 'a__%d_%d' % (k, ai)
            pre.append('let %s = %s;' % (tmp, args[ai]))
            post.append('let %s%s: %s = %s;' % (m.group(1) or '', m.group(2), ty, tmp))
            ai += 1
        if ai != len(args):
            raise ExtractError('call of helper %s: %d arguments for %d parameters' % (f2.name, len(args), ai))
        for nm, txt in const_params:
            hb = re.sub(r'(?<![A-Za-z0-9_.])%s(?![A-Za-z0-9_])' % nm, '(' + txt + ')', hb)
        if uses_self:
            hb = re.sub(r'(?<![A-Za-z0-9_])self(?![A-Za-z0-9_])', selfname, hb)
        if im2 is not None:
            st = subst_text(re.sub(r"^&?\s*('[a-z_]+\s+)?", '', im2.selfty), subst)
            callerst = subst_text(re.sub(r"^&?\s*('[a-z_]+\s+)?", '', im.selfty), subst) if im is not None else None
            if st != callerst:
                hb = re.sub(r'(?<![A-Za-z0-9_])Self(?![A-Za-z0-9_])', '<%s>' % st if '<' in st else st, hb)
        # the helper's own calls to un-contracted helpers
        hb = self.run(im2, f2, hb, depth + 1, stack + ((id(im2), f2.name),))
        return '({ /* R18: inlined %s */ %s %s %s })' % (f2.name, ' '.join(pre), ' '.join(post), hb)

    # ---- closures ---------------------------------------------------------
    def inline_closures(self, im, f, body):
        """`let g = |x, y| e;` (not `move`-sensitive: captured variables are immutable bindings of Copy data in this crate) whose
        name is used only in call position: calls are expanded, the binding is removed.  Closures the contract annotates
        (rule R10) are left alone."""
        try:
            c = self.unit.contract(im, f)
        except Exception:
            c = None
        annotated = set((c.closures or {}).keys()) if c is not None and getattr(c, 'closures', None) else set()
        for _ in range(50):
            toks = tokenize(body)
            mt = match_delims(toks)
            # ordinals of closures in the body, in order of appearance (as annotate_closures counts them)
            ords = {}
            n = 0
            i = 0
            hit = None
            while i < len(toks):
                t = toks[i]
                if t.text in ('|', '||') and self._closure_start(toks, i):
                    ords[i] = n
                    n += 1
                i += 1
            for i, o in ords.items():
                if o in annotated:
                    continue
                # `let NAME = |..| ...;`
                if i >= 3 and toks[i - 1].text == '=' and toks[i - 2].kind == 'id' and toks[i - 3].text == 'let':
                    hit = (i, toks[i - 2].text)
                    break
            if hit is None:
                return body
            i, name = hit
            # parameters
            if toks[i].text == '||':
                pe = i
                ptxt = ''
            else:
                pe = i + 1
                while toks[pe].text != '|':
                    pe += 1
                ptxt = body[toks[i].end:toks[pe].start]
            # end of the let statement: the next `;` at this nesting depth
            j = pe + 1
            while j < len(toks):
                if toks[j].text in ('(', '[', '{'):
                    j = mt[j]
                elif toks[j].text == ';':
                    break
                j += 1
            if j >= len(toks):
                return body
            cbody = body[toks[pe].end:toks[j].start].strip()
            if re.search(r'(?<![A-Za-z0-9_])return(?![A-Za-z0-9_])', cbody) or cbody.startswith('->'):
                return body
            params = []
            for p in split_top(ptxt):
                p = p.strip()
                if not p:
                    continue
                m = re.fullmatch(r'(mut\s+)?([A-Za-z_][A-Za-z0-9_]*)(\s*:\s*(.*))?', p, re.S)
                if not m:
                    return body
                params.append((m.group(1) or '', m.group(2), m.group(4)))
            # every other use of NAME must be a call
            uses = [k for k, t in enumerate(toks) if t.kind == 'id' and t.text == name and k != i - 2]
            for k in uses:
                if k + 1 >= len(toks) or toks[k + 1].text != '(' or (k > 0 and toks[k - 1].text in ('.', '::', '&')):
                    return body
            if not uses:
                return body
            # rewrite calls from the last to the first, then drop the let
            out = body
            for k in sorted(uses, reverse=True):
                close = mt[k + 1]
                args = [a.strip() for a in split_args(out[toks[k + 1].end:toks[close].start]) if a.strip()] if close > k + 2 else []
                if len(args) != len(params):
                    return body
                q = self.counter
                self.counter += 1
                pre = ['let c__%d_%d = %s;' % (q, n_, a) for n_, a in enumerate(args)]
                post = ['let %s%s%s = c__%d_%d;' % (mu, nm, (': ' + ty) if ty else '', q, n_) for n_, (mu, nm, ty) in enumerate(params)]
                rep = '({ /* R18: inlined closure %s */ %s %s %s })' % (name, ' '.join(pre), ' '.join(post), cbody)
                out = out[:toks[k].start] + rep + out[toks[close].end:]
            # the let statement lies before every use, so its offsets are still valid
            out = out[:toks[i - 3].start] + out[toks[j].end:]
            self.log.append((f.name, 'closure ' + name))
            body = out
        return body

    @staticmethod
    def _closure_start(toks, i):
        """is the `|` / `||` at i the start of a closure (and not a binary or)?"""
        if i == 0:
            return True
        p = toks[i - 1]
        if p.kind in ('id', 'num', 'str', 'chr') and p.text not in ('return', 'move', 'in', 'else', 'match', 'if', 'while'):
            return False
        if p.text in (')', ']', '}'):
            return False
        return True
