#!/bin/bash
# time_poly.sh FILE [timeout] : verify each pass-B lemma separately, in parallel, report time / status
F=$1; T=${2:-90}
cd $(dirname $F)
awk '/^pub mod poly/{p=1} p' $F | grep -o "proof fn p_[A-Za-z0-9_]*" | awk '{print $3}' | sort -u | xargs -P 12 -I{} bash -c "s=\$(date +%s); r=\$(timeout $T verus $F --verify-only-module poly --verify-function {} --smt-option smt.macro_finder=true 2>&1 | grep -o 'verification results.*\|rlimit' | head -1); e=\$(date +%s); echo \"{} \$((e-s))s \${r:-TIMEOUT}\""
